"""MIR fact model: CFG, dominators, edge dominance (guards), definitions, term reconstruction (value numbering
over hash-consed tuples), loop recognition and crate-local call graph.  No library code is executed; everything
here walks the JSON facts dumped by the opw-facts driver."""
import re
from . import fieldalias, desugar, inline
from functools import lru_cache


def short(path):
    """Strip generic arguments and re-export prefixes for matching resolved callee paths."""
    return path


class Program:
    def __init__(self, facts):
        self.facts = facts
        self.field_aliases = fieldalias.apply(facts)
        self.desugared = desugar.apply(facts)
        self.inlined = inline.apply(facts)
        self.bodies = {}
        for b in facts['bodies']:
            self.bodies[b['path']] = Body(b, self)
        self.closures_of = {}
        for p, b in self.bodies.items():
            if b.kind == 'Closure':
                self.closures_of.setdefault(b.raw.get('parent'), []).append(p)
        self.adts = {a['path']: a for a in facts.get('adts', [])}
        # initialisers of the crate's named constants, as bodies of their own (value: const_term(path))
        self.consts = {c['path']: Body(c, self) for c in facts.get('consts', [])}
        self.impls = facts.get('impls', [])

    def body(self, path):
        return self.bodies.get(path)

    def const_term(self, path):
        """value term of a named constant of the crate (its initialiser's return value), or None"""
        c = self.consts.get(path)
        return strip(c.return_term()) if c is not None else None

    def find(self, suffix=None, impl_self=None, impl_trait=None, assoc=None, kind=None):
        out = []
        for p, b in self.bodies.items():
            r = b.raw
            if suffix is not None and not p.endswith(suffix):
                continue
            if impl_self is not None and r.get('impl_self') != impl_self:
                continue
            if impl_trait is not None and not (r.get('impl_trait') or '').endswith(impl_trait):
                continue
            if assoc is not None and r.get('assoc_name') != assoc:
                continue
            if kind is not None and b.kind != kind:
                continue
            out.append(b)
        return out

    def trait_impl_method(self, self_ty, trait_suffix, method):
        r = [b for b in self.find(impl_self=self_ty, impl_trait=trait_suffix, assoc=method)]
        if len(r) == 1:
            return r[0]
        if not r:
            # the impl does not override the method: the trait's provided body (if any) is what runs for this type
            d = [b for p, b in self.bodies.items() if p.endswith('%s::%s' % (trait_suffix, method)) and not b.raw.get('impl_self') and b.kind != 'Closure']
            if len(d) == 1:
                return d[0]
        return None

    def reachable_bodies(self, entry_paths, follow_virtual=None):
        """Crate-local call graph closure (static calls + closures of visited bodies).
        follow_virtual: optional callable(trait_method_path) -> list of body paths."""
        seen = []
        seen_set = set()
        st = list(entry_paths)
        while st:
            p = st.pop()
            if p in seen_set or p not in self.bodies:
                continue
            seen_set.add(p)
            seen.append(p)
            b = self.bodies[p]
            for c in self.closures_of.get(p, []):
                st.append(c)
            for fnref in b.fn_refs():
                if fnref in self.bodies:
                    st.append(fnref)
            for bi, t in b.calls():
                c = t['callee']
                if c.get('kind') == 'item' and c.get('local') and c.get('resolved') in self.bodies:
                    st.append(c['resolved'])
                elif c.get('kind') == 'virtual' and follow_virtual:
                    st.extend(follow_virtual(c.get('resolved')))
                elif c.get('kind') == 'unresolved' and c.get('local') and c.get('path') in self.bodies:
                    st.append(c['path'])
        return seen


def callee_name(t):
    c = t['callee']
    return c.get('resolved') or c.get('path') or c.get('dbg') or '?'


def strip_generics(s):
    out = []
    depth = 0
    for ch in s:
        if ch == '<':
            depth += 1
        elif ch == '>':
            depth -= 1
        elif depth == 0:
            out.append(ch)
    return ''.join(out)



def _split_top(s, sep='::'):
    out = []
    depth = 0
    cur = []
    i = 0
    while i < len(s):
        ch = s[i]
        if ch in '<([':
            depth += 1
        elif ch in '>)]':
            if not (ch == '>' and i > 0 and s[i - 1] == '-'):
                depth -= 1
        if depth == 0 and s.startswith(sep, i):
            out.append(''.join(cur))
            cur = []
            i += len(sep)
            continue
        cur.append(ch)
        i += 1
    out.append(''.join(cur))
    return [x for x in out if x != '']


def _last_ident(ty):
    ty = ty.strip()
    while ty.startswith('&'):
        ty = ty[1:].lstrip()
        if ty.startswith("'"):
            ty = ty.split(' ', 1)[1] if ' ' in ty else ty
        if ty.startswith('mut '):
            ty = ty[4:]
    if ty.startswith('[') and ty.endswith(']'):
        return 'array' if ';' in ty else 'slice'
    if ty.startswith('dyn '):
        ty = ty[4:]
    segs = _split_top(ty)
    segs = [x for x in segs if not x.startswith('<')]
    if not segs:
        return ty
    return strip_generics(segs[-1]).strip()


@lru_cache(maxsize=None)
def cname(name):
    """Canonical short callee name 'Owner::method' from a resolved def path:
    `<A as path::Trait<..>>::m` -> 'Trait::m'; `p::<impl Trait<..> for Y>::m` -> 'Trait::m';
    `p::<impl Y<..>>::m` -> 'Y::m'; `p::Type::<T>::m` -> 'Type::m'; free fn `p::q::f` -> 'q::f'."""
    segs = _split_top(name)
    if not segs:
        return name
    method = segs[-1]
    extra = []
    while method.startswith('{') and len(segs) > 1:
        extra.insert(0, method)
        segs = segs[:-1]
        method = segs[-1]
    owner = None
    rest = segs[:-1]
    while rest and rest[-1].startswith('<') and not rest[-1].startswith('<impl ') and ' as ' not in rest[-1]:
        rest = rest[:-1]          # turbofish generics
    if rest:
        o = rest[-1]
        if o.startswith('<impl '):
            inner = o[6:-1]
            parts = _split_for(inner)
            owner = _last_ident(parts[0])
        elif o.startswith('<') and ' as ' in o:
            inner = o[1:-1]
            a, b = _split_as(inner)
            owner = _last_ident(b)
        else:
            owner = strip_generics(o)
    r = (owner + '::' if owner else '') + method
    if extra:
        r += '::' + '::'.join(extra)
    return r


def _split_for(inner):
    depth = 0
    i = 0
    while i < len(inner):
        ch = inner[i]
        if ch in '<([':
            depth += 1
        elif ch in '>)]':
            depth -= 1
        if depth == 0 and inner.startswith(' for ', i):
            return [inner[:i], inner[i + 5:]]
        i += 1
    return [inner]


def _split_as(inner):
    depth = 0
    i = 0
    while i < len(inner):
        ch = inner[i]
        if ch in '<([':
            depth += 1
        elif ch in '>)]':
            depth -= 1
        if depth == 0 and inner.startswith(' as ', i):
            return inner[:i], inner[i + 4:]
        i += 1
    return inner, inner

def callee_tail(t, n=2):
    c = cname(callee_name(t))
    return c if n >= 2 else c.split('::')[-1]


def _old_callee_tail(t, n=2):
    """Last n path segments of the resolved callee with generic args removed, e.g. 'Vec::push'."""
    name = callee_name(t)
    # keep <impl ...> groups out
    s = re.sub(r'<impl [^>]*>::', '', name)
    s = strip_generics(s)
    s = s.replace('::::', '::')
    parts = [x for x in s.split('::') if x]
    return '::'.join(parts[-n:])


class Body:
    def __init__(self, raw, prog):
        self.raw = raw
        self.prog = prog
        self.path = raw['path']
        self.kind = raw['kind']
        self.blocks = raw['blocks']
        self.n = len(self.blocks)
        self.arg_count = raw['arg_count']
        self._succ = [self._succs(b['term']) for b in self.blocks]
        self._pred = [[] for _ in range(self.n)]
        for i, ss in enumerate(self._succ):
            for s in ss:
                self._pred[s].append(i)
        self._reach = None
        self._dom = None
        self._edge_dom = {}
        self._defs = None
        self._mut_borrowed = None
        self.names = {}
        for d in raw.get('debug', []):
            pl = d.get('place')
            if pl and not pl['proj']:
                self.names.setdefault(pl['local'], d['name'])
        self._term_memo = {}

    # ---------------------------------------------------------------- CFG
    @staticmethod
    def _succs(t):
        k = t['k']
        if k == 'goto':
            return [t['target']]
        if k == 'switch':
            out = [x[1] for x in t['targets']] + [t['otherwise']]
            return out
        if k in ('drop', 'assert'):
            return [t['target']]
        if k == 'call':
            return [t['target']] if t['target'] >= 0 else []
        return []

    def succ(self, i):
        return self._succ[i]

    def pred(self, i):
        return self._pred[i]

    def switch_edges(self, i):
        """[(value_or_'otherwise', target)] for a switch block."""
        t = self.blocks[i]['term']
        return [(int(v), tg) for v, tg in t['targets']] + [('otherwise', t['otherwise'])]

    def reachable(self):
        if self._reach is None:
            self._reach = self._reach_from(0, None)
        return self._reach

    def _reach_from(self, start, cut_edge):
        seen = set()
        st = [start]
        while st:
            x = st.pop()
            if x in seen:
                continue
            seen.add(x)
            t = self.blocks[x]['term']
            if cut_edge is not None and x == cut_edge[0]:
                if t['k'] == 'switch':
                    for key, tg in self.switch_edges(x):
                        if key != cut_edge[1]:
                            st.append(tg)
                    continue
            st.extend(self._succ[x])
        return seen

    def dominators(self):
        if self._dom is None:
            reach = self.reachable()
            D = {i: set(reach) for i in reach}
            D[0] = {0}
            order = sorted(reach)
            ch = True
            while ch:
                ch = False
                for i in order:
                    if i == 0:
                        continue
                    ps = [p for p in self._pred[i] if p in reach]
                    nd = (set.intersection(*[D[p] for p in ps]) | {i}) if ps else {i}
                    if nd != D[i]:
                        D[i] = nd
                        ch = True
            self._dom = D
        return self._dom

    def dominates(self, a, b):
        return a in self.dominators().get(b, set())

    def edge_dominated(self, sw, key):
        """Blocks all of whose entry paths pass through edge (sw --key-->)."""
        k = (sw, key)
        if k not in self._edge_dom:
            r = self._reach_from(0, (sw, key))
            self._edge_dom[k] = self.reachable() - r
        return self._edge_dom[k]

    def guards(self, bi):
        """Ordered list of (switch_block, key, keys_all) whose edge dominates block bi.
        For a multi-way switch where several edges lead to the region only single-edge dominance is reported."""
        out = []
        for d in sorted(self.dominators().get(bi, ())):
            t = self.blocks[d]['term']
            if t['k'] != 'switch' or d == bi and False:
                continue
            for key, tg in self.switch_edges(d):
                if bi in self.edge_dominated(d, key):
                    out.append((d, self._named_otherwise(d) if key == 'otherwise' else key))
        return out

    def _named_otherwise(self, sw):
        """The `otherwise` edge of a switch on an enum discriminant that lists all variants but one *is* that variant
        (`if let Some(x) = o {..} else {..}` switches [1 -> then, otherwise -> else]): name it, so that both spellings of a
        two-way match give the same guard key."""
        t = self.blocks[sw]['term']
        op = t['discr']
        if op.get('k') not in ('copy', 'move') or op['place']['proj']:
            return 'otherwise'
        loc = op['place']['local']
        nv = None
        for d in self.defs().get(loc, []):
            if d[0] == 'st' and d[3]['rv'].get('k') == 'discr':
                nv = d[3]['rv'].get('nvariants', -1)
            else:
                return 'otherwise'
        explicit = {int(v) for v, tg in t['targets']}
        if nv is not None and nv > 0 and len(explicit) == nv - 1 and explicit <= set(range(nv)):
            return (set(range(nv)) - explicit).pop()
        return 'otherwise'

    def reaches(self, a, b, avoid=()):
        """Is block b reachable from block a (through >=0 edges) without entering blocks in avoid?"""
        seen = set()
        st = [a]
        while st:
            x = st.pop()
            if x in seen or x in avoid:
                continue
            seen.add(x)
            if x == b:
                return True
            st.extend(self._succ[x])
        return False

    def return_blocks(self):
        return [i for i in self.reachable() if self.blocks[i]['term']['k'] == 'return']

    # ---------------------------------------------------------------- statements
    def calls(self):
        for i in sorted(self.reachable()):
            blk = self.blocks[i]
            if blk['cleanup']:
                continue
            t = blk['term']
            if t['k'] == 'call':
                yield i, t

    def fn_refs(self):
        """function items used as values (e.g. passed to map / map_or_else)"""
        out = []

        def visit(o):
            if isinstance(o, dict):
                if o.get('k') == 'const' and 'fn' in o:
                    out.append(o['fn'])
                for v in o.values():
                    if isinstance(v, (dict, list)):
                        visit(v)
            elif isinstance(o, list):
                for v in o:
                    visit(v)
        for i in sorted(self.reachable()):
            blk = self.blocks[i]
            if blk['cleanup']:
                continue
            for st in blk['stmts']:
                visit(st['rv'])
            t = blk['term']
            if t['k'] == 'call':
                visit(t['args'])
        return out

    def call_sites(self, pred):
        return [(i, t) for i, t in self.calls() if pred(t)]

    def stmts(self):
        for i in sorted(self.reachable()):
            blk = self.blocks[i]
            if blk['cleanup']:
                continue
            for j, st in enumerate(blk['stmts']):
                yield i, j, st

    def defs(self):
        """local -> list of (kind, bb, idx, node, whole) ; idx = -1 for call destinations."""
        if self._defs is None:
            d = {}
            mb = set()
            for i, j, st in self.stmts():
                d.setdefault(st['lhs']['local'], []).append(('st', i, j, st, not st['lhs']['proj']))
                rv = st['rv']
                if rv['k'] == 'ref' and rv['mut']:
                    mb.add(rv['place']['local'])
            for i, t in self.calls():
                d.setdefault(t['dest']['local'], []).append(('call', i, -1, t, not t['dest']['proj']))
            self._defs = d
            self._mut_borrowed = mb
        return self._defs

    def mut_borrowed(self):
        self.defs()
        return self._mut_borrowed

    def local_ty(self, l):
        return self.raw['locals'][l]['ty']

    def name_of(self, l):
        return self.names.get(l, '_%d' % l)

    def span_of(self, bi, idx=-1):
        blk = self.blocks[bi]
        if idx >= 0 and idx < len(blk['stmts']):
            return blk['stmts'][idx].get('span')
        return blk['term'].get('span') or (blk['stmts'][-1].get('span') if blk['stmts'] else self.raw.get('span'))

    def where(self, bi, idx=-1):
        sp = self.span_of(bi, idx) or {}
        return '%s:%s' % (sp.get('file', '?'), sp.get('line', '?'))

    # ---------------------------------------------------------------- terms
    def term_local(self, l, at=None):
        """Term for the value of local l.  `at`=(bb, idx) selects the reaching definition when l has several."""
        key = (l, None)
        defs = self.defs().get(l, [])
        if 1 <= l <= self.arg_count and not defs:
            return ('param', l, self.name_of(l))
        whole = [d for d in defs if d[4]]
        partial = [d for d in defs if not d[4]]
        if len(whole) == 1 and not partial and not (1 <= l <= self.arg_count):
            if key in self._term_memo:
                return self._term_memo[key]
            self._term_memo[key] = ('cycle', self.path, l)
            d = whole[0]
            r = self._def_term(d)
            if l in self.mut_borrowed():
                # value may be changed through the borrow: keep the initial value but mark it
                r = ('mutb', l, r)
            self._term_memo[key] = r
            return r
        if not defs:
            return ('undef', self.path, l)
        if at is not None:
            rd = self.reaching_defs(l, at)
            if len(rd) == 1 and rd[0] is not None and rd[0][4] and l not in self.mut_borrowed():
                k2 = (l, (rd[0][1], rd[0][2]))
                if k2 in self._term_memo:
                    return self._term_memo[k2]
                self._term_memo[k2] = ('cycle', self.path, l)
                r = self._def_term(rd[0])
                self._term_memo[k2] = r
                return r
            if len(rd) == 1 and rd[0] is None and 1 <= l <= self.arg_count:
                return ('param', l, self.name_of(l))
        if 1 <= l <= self.arg_count:
            return ('mparam', l, self.name_of(l))
        return ('var', self.path, l, self.name_of(l))

    def _def_term(self, d):
        kind, bi, idx, node, whole = d
        if kind == 'call':
            return self.call_term(node, (bi, idx))
        return self.rv_term(node['rv'], (bi, idx))

    def reaching_defs(self, l, at):
        """Definitions of local l (whole or partial) that may reach program point at=(bb, idx) (before the
        statement idx; idx=-1 / None means at the terminator).  None in the list = value on function entry."""
        bb, idx = at
        nst = len(self.blocks[bb]['stmts'])
        if idx is None or idx < 0:
            idx = nst
        defs = self.defs().get(l, [])
        by_block = {}
        for d in defs:
            pos = d[2] if d[0] == 'st' else 10 ** 9
            by_block.setdefault(d[1], []).append((pos, d))
        for v in by_block.values():
            v.sort(key=lambda x: x[0])
        # last def in same block before idx
        here = [x for x in by_block.get(bb, []) if x[0] < idx]
        if here:
            return [here[-1][1]]
        # walk predecessors
        out = []
        seen = set()
        st = list(self._pred[bb])
        entry_reaches = (bb == 0)
        while st:
            x = st.pop()
            if x in seen:
                continue
            seen.add(x)
            if x in by_block:
                dd = by_block[x][-1][1]
                if dd not in out:
                    out.append(dd)
                continue
            if x == 0:
                entry_reaches = True
            st.extend(self._pred[x])
        if entry_reaches:
            out.append(None)
        return out

    def terms_at(self, l, at):
        """[(term, def)] for every definition of local l that may reach `at` (def None = entry value)."""
        out = []
        for d in self.reaching_defs(l, at):
            if d is None:
                out.append((('param', l, self.name_of(l)) if 1 <= l <= self.arg_count else ('undef', self.path, l), None))
            elif d[4]:
                out.append((self._def_term(d), d))
            else:
                out.append((('partial', self.path, l, d[1], d[2]), d))
        return out

    def return_values(self):
        """[(term, def, return_block)] over all return blocks and reaching definitions of _0."""
        out = []
        seen = set()
        def through_copies(t, d, depth=3):
            # `_0 = move _r` where _r itself is assigned on several paths (a result local of an inlined helper): the values of _r
            if d and d[0] == 'st' and d[4] and depth > 0:
                rv = d[3]['rv']
                if rv['k'] == 'use' and rv['op']['k'] in ('move', 'copy') and not rv['op']['place']['proj']:
                    src = rv['op']['place']['local']
                    if src < self.raw.get('inline_local_base', 10 ** 9):
                        return [(t, d)]
                    alts = self.terms_at(src, (d[1], d[2]))
                    if len(alts) > 1 and all(d2 is not None and d2[4] for t2, d2 in alts):
                        res = []
                        for t2, d2 in alts:
                            res.extend(through_copies(t2, d2, depth - 1))
                        return res
            return [(t, d)]
        for rb in self.return_blocks():
            for t0, d0 in self.terms_at(0, (rb, None)):
                for t, d in through_copies(t0, d0):
                    k = (d[1], d[2]) if d else None
                    if k in seen:
                        continue
                    seen.add(k)
                    out.append((t, d, rb))
        return out

    def place_term(self, p, at=None):
        t = self.term_local(p['local'], at)
        for e in p['proj']:
            t = self.proj_term(t, e, at)
        return t

    def proj_term(self, t, e, at=None):
        k = e['k']
        if k == 'deref':
            if t[0] == 'ref':
                return t[1]
            return ('deref', t)
        if k == 'field':
            if t[0] == 'agg' and e['i'] < len(t) - 2 and t[1] != 'array':
                return t[2 + e['i']]
            return ('fld', t, e['name'])
        if k == 'index':
            it = self.term_local(e['local'], at)
            return index_term(t, it)
        if k == 'cindex':
            return index_term(t, ('const', 'usize', e['off'], None))
        if k == 'downcast':
            return ('as', t, e['name'])
        return ('proj?', t, k)

    def op_term(self, o, at=None):
        k = o['k']
        if k in ('copy', 'move'):
            return self.place_term(o['place'], at)
        if k == 'const':
            return const_term(o)
        return ('op?', str(o)[:60])

    def rv_term(self, rv, at=None):
        k = rv['k']
        if k == 'use':
            return self.op_term(rv['op'], at)
        if k == 'bin':
            o = rv['op']
            a = self.op_term(rv['a'], at)
            b = self.op_term(rv['b'], at)
            if o in ('AddWithOverflow', 'SubWithOverflow', 'MulWithOverflow'):
                return ('agg', 'tuple', ('bin', o[:3], a, b), ('const', 'bool', 0, None))
            return ('bin', o, a, b)
        if k == 'un':
            return ('un', rv['op'], self.op_term(rv['a'], at))
        if k == 'ref':
            return ('ref', self.place_term(rv['place'], at))
        if k == 'cast':
            return ('cast', self.op_term(rv['op'], at), rv['ty'])
        if k == 'agg':
            kd = rv['kind']
            if 'adt' in kd:
                name = kd['adt'] + ('::' + kd['variant'] if kd.get('variant') and not kd['adt'].endswith(kd['variant']) else '')
            elif 'closure' in kd:
                name = 'closure:' + kd['closure']
            else:
                o = kd.get('other', '')
                name = 'array' if o.startswith('Array') else 'tuple'
            return ('agg', name) + tuple(self.op_term(o, at) for o in rv['ops'])
        if k == 'discr':
            return ('discr', self.place_term(rv['place'], at))
        if k == 'repeat':
            return ('repeat', self.op_term(rv['op'], at), rv['n'])
        return ('rv?', k, rv.get('dbg', '')[:60])

    def call_term(self, t, at=None):
        name = callee_name(t)
        if name.endswith('box_assume_init_into_vec_unsafe') and at is not None:
            v = self._vec_literal(at[0])
            if v is not None:
                return v
        args = tuple(self.op_term(a, at) for a in t['args'])
        if len(args) == 3 and cname(name) in ('f64::mul_add', 'f32::mul_add'):
            # x.mul_add(y, z) is x * y + z (clippy's suboptimal_flops): the rules see the arithmetic, not the call
            return ('bin', 'Add', ('bin', 'Mul', args[0], args[1]), args[2])
        return ('call', name) + args

    def _vec_literal(self, call_bb):
        """`vec![a, b, ..]` lowers to Box::new_uninit + a raw-pointer store of the array + box_assume_init_into_vec_unsafe:
        recover ('agg', 'vec', a, b, ..) from the dominating array store."""
        best = None
        for i, j, st in self.stmts():
            lhs = st['lhs']
            if lhs['proj'] and lhs['proj'][0]['k'] == 'deref' and st['rv']['k'] == 'agg' and str(st['rv']['kind'].get('other', '')).startswith('Array') \
                    and any(e.get('name') == 'value' for e in lhs['proj']) and (i == call_bb or self.dominates(i, call_bb)):
                if best is None or self.dominates(best[0], i):
                    best = (i, j, st)
        if best is None:
            return None
        i, j, st = best
        return ('agg', 'vec') + tuple(self.op_term(o, (i, j)) for o in st['rv']['ops'])

    def return_term(self):
        return self.term_local(0)

    # ---------------------------------------------------------------- guard atoms
    def switch_atom(self, sw):
        """Trace the switched operand of switch block sw to (term, negated?)"""
        t = self.blocks[sw]['term']
        term = self.op_term(t['discr'], (sw, None))
        return term

    def guard_terms(self, bi):
        """[(discr_term, key, switch_block)] for every switch edge dominating block bi."""
        return [_positive_guard(self.switch_atom(d), key) + (d,) for d, key in self.guards(bi)]


def _positive_guard(t, key):
    """A boolean branch condition `!c`, `c == false`, `c != true` ... taken with `key` is the condition c taken with the opposite key."""
    while key in (0, 1, 'otherwise'):
        s = strip(t)
        if not isinstance(s, tuple):
            break
        flip = None
        if s[0] == 'un' and s[1] == 'Not' and _is_boolish(s[2]):
            inner, flip = s[2], True
        elif s[0] == 'bin' and s[1] in ('Eq', 'Ne'):
            for a, b in ((s[2], s[3]), (s[3], s[2])):
                sb = strip(b)
                if isinstance(sb, tuple) and sb[0] == 'const' and sb[1] == 'bool':
                    inner = a
                    flip = (bool(sb[2]) is False) == (s[1] == 'Eq')
                    break
        if flip is None:
            break
        t = inner
        if flip:
            key = 'otherwise' if key == 0 else 0
    return (t, key)


def _is_boolish(t):
    s = strip(t)
    if not isinstance(s, tuple):
        return False
    if s[0] == 'bin' and s[1] in ('Eq', 'Ne', 'Lt', 'Le', 'Gt', 'Ge'):
        return True
    if s[0] == 'un' and s[1] == 'Not':
        return _is_boolish(s[2])
    if s[0] == 'call':
        return True          # `!f(..)` on an integer would be a bit operation, which is never a branch condition on its own
    return s[0] in ('var', 'mutb', 'param', 'fld', 'deref', 'const')


def index_term(t, it):
    if t[0] == 'agg' and t[1] == 'array' and it[0] == 'const' and isinstance(it[2], int) and it[2] < len(t) - 2:
        return t[2 + it[2]]
    return ('idx', t, it)


def const_term(o):
    if o.get('promoted') and len(o.get('promoted_consts') or []) == 1:
        return const_term(o['promoted_consts'][0])
    name = o.get('name')
    ty = o.get('ty', '?')
    if 'variant' in o:
        return ('const', 'variant', ty + '::' + o['variant'], None)
    if 'f' in o:
        return ('const', 'f64' if ty == 'f64' else ty, float(o['f']), name)
    if 'bits' in o:
        v = int(o['bits'])
        size = o.get('size', 8)
        if ty.startswith('i') and ty != 'isize' or ty == 'isize':
            if v >= 1 << (8 * size - 1):
                v -= 1 << (8 * size)
        return ('const', ty, v, name)
    if 'str' in o:
        return ('const', 'str', o['str'], name)
    if 'hex' in o:
        return ('const', 'bytes', o['hex'], name)
    if 'raw' in o:
        return ('const', 'raw:' + o.get('raw_ty', ''), o['raw'], name)
    if 'fn' in o:
        return ('const', 'fn', o['fn'], None)
    return ('const', ty, o.get('dbg', '')[:80], name)


# -------------------------------------------------------------------- term utilities
def walk(t, f):
    """Pre-order walk over a term; f(sub) for each tuple sub-term."""
    st = [t]
    seen = 0
    while st:
        x = st.pop()
        if isinstance(x, tuple):
            f(x)
            seen += 1
            if seen > 200000:
                return
            for y in x[1:]:
                if isinstance(y, tuple):
                    st.append(y)


def subterms(t, pred):
    out = []
    walk(t, lambda x: out.append(x) if pred(x) else None)
    return out


def contains(t, pred):
    found = []

    def f(x):
        if not found and pred(x):
            found.append(x)
    walk(t, f)
    return bool(found)


def strip(t):
    """Remove ref/deref/copy-like wrappers and `mutb` marks at the top of a term."""
    while isinstance(t, tuple) and t and t[0] in ('ref', 'deref', 'mutb'):
        t = t[-1] if t[0] == 'mutb' else t[1]
    return t


def is_call(t, tail):
    return isinstance(t, tuple) and t and t[0] == 'call' and path_tail(t[1], tail)


def path_tail(name, tail):
    c = cname(name)
    if '::' in tail:
        return c == tail or c.endswith('::' + tail)
    return c.split('::')[-1] == tail


def _old_path_tail(name, tail):
    s = re.sub(r'<impl [^>]*>::', '', name)
    s = strip_generics(s)
    parts = [x for x in s.split('::') if x]
    want = tail.split('::')
    return parts[-len(want):] == want


def show(t, depth=0, maxdepth=7):
    if not isinstance(t, tuple):
        return str(t)
    if depth > maxdepth:
        return '...'
    k = t[0]
    if k == 'param':
        return t[2]
    if k == 'mparam':
        return t[2] + "'"
    if k == 'var':
        return '%s~' % t[3]
    if k == 'const':
        if len(t) > 3 and t[3]:
            return t[3].split('::')[-1]
        return repr(t[2]) if not isinstance(t[2], str) or len(t[2]) < 70 else repr(t[2][:67] + '...')
    if k == 'call':
        return '%s(%s)' % (cname(t[1]), ', '.join(show(x, depth + 1, maxdepth) for x in t[2:]))
    if k == 'bin':
        sym = {'Add': '+', 'Sub': '-', 'Mul': '*', 'Div': '/', 'Rem': '%', 'Lt': '<', 'Le': '<=', 'Gt': '>', 'Ge': '>=', 'Eq': '==', 'Ne': '!='}.get(t[1], t[1])
        return '(%s %s %s)' % (show(t[2], depth + 1, maxdepth), sym, show(t[3], depth + 1, maxdepth))
    if k == 'un':
        return '%s(%s)' % (t[1], show(t[2], depth + 1, maxdepth))
    if k == 'fld':
        return '%s.%s' % (show(t[1], depth + 1, maxdepth), t[2])
    if k == 'idx':
        return '%s[%s]' % (show(t[1], depth + 1, maxdepth), show(t[2], depth + 1, maxdepth))
    if k == 'ref':
        return '&' + show(t[1], depth + 1, maxdepth)
    if k == 'deref':
        return '*' + show(t[1], depth + 1, maxdepth)
    if k == 'as':
        return '(%s as %s)' % (show(t[1], depth + 1, maxdepth), t[2])
    if k == 'cast':
        return '(%s as %s)' % (show(t[1], depth + 1, maxdepth), t[2])
    if k == 'agg':
        return '%s{%s}' % (t[1].split('::')[-1], ', '.join(show(x, depth + 1, maxdepth) for x in t[2:]))
    if k == 'mutb':
        return show(t[2], depth, maxdepth) + '!'
    if k == 'discr':
        return 'discr(%s)' % show(t[1], depth + 1, maxdepth)
    return '%s(%s)' % (k, ', '.join(show(x, depth + 1, maxdepth) for x in t[1:]))
