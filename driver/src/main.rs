#![feature(rustc_private)]
extern crate rustc_abi;
extern crate rustc_driver;
extern crate rustc_hir;
extern crate rustc_interface;
extern crate rustc_middle;
extern crate rustc_span;

use rustc_driver::Compilation;
use rustc_hir::def::DefKind;
use rustc_interface::interface::Compiler;
use rustc_middle::mir::{self, Operand, Place, PlaceElem, Rvalue, StatementKind, TerminatorKind};
use rustc_middle::ty::{self, TyCtxt};
use rustc_span::Span;
use std::fmt::Write as _;

fn esc(s: &str) -> String {
    let mut o = String::with_capacity(s.len() + 2);
    o.push('"');
    for c in s.chars() {
        match c {
            '"' => o.push_str("\\\""),
            '\\' => o.push_str("\\\\"),
            '\n' => o.push_str("\\n"),
            '\r' => o.push_str("\\r"),
            '\t' => o.push_str("\\t"),
            c if (c as u32) < 0x20 => {
                let _ = write!(o, "\\u{:04x}", c as u32);
            }
            c => o.push(c),
        }
    }
    o.push('"');
    o
}

struct Cx<'tcx> {
    tcx: TyCtxt<'tcx>,
}

impl<'tcx> Cx<'tcx> {
    fn span(&self, sp: Span) -> String {
        let sm = self.tcx.sess.source_map();
        let call = sp.source_callsite();
        let lo = sm.lookup_char_pos(call.lo());
        let file = format!("{}", lo.file.name.prefer_local_unconditionally());
        format!(
            "{{\"file\":{},\"line\":{},\"col\":{},\"exp\":{}}}",
            esc(&file),
            lo.line,
            lo.col.0 + 1,
            sp.from_expansion()
        )
    }

    fn place(&self, body: &mir::Body<'tcx>, p: &Place<'tcx>) -> String {
        let mut s = format!("{{\"local\":{},\"proj\":[", p.local.as_usize());
        let mut pty = mir::PlaceTy::from_ty(body.local_decls[p.local].ty);
        for (i, elem) in p.projection.iter().enumerate() {
            if i > 0 {
                s.push(',');
            }
            match elem {
                PlaceElem::Deref => s.push_str("{\"k\":\"deref\"}"),
                PlaceElem::Field(f, _) => {
                    let name = match pty.ty.kind() {
                        ty::Adt(adt, _) => {
                            let vi = pty.variant_index.unwrap_or(rustc_abi::FIRST_VARIANT);
                            adt.variant(vi).fields[f].name.to_string()
                        }
                        ty::Closure(did, _) => {
                            let caps = self.tcx.closure_captures(did.expect_local());
                            caps.get(f.as_usize())
                                .map(|c| c.to_string(self.tcx))
                                .unwrap_or_else(|| format!("upvar{}", f.as_usize()))
                        }
                        _ => format!("{}", f.as_usize()),
                    };
                    let owner = match pty.ty.kind() {
                        ty::Adt(adt, _) if adt.did().is_local() => self.tcx.def_path_str(adt.did()),
                        _ => String::new(),
                    };
                    let _ = write!(
                        s,
                        "{{\"k\":\"field\",\"i\":{},\"name\":{},\"adt\":{}}}",
                        f.as_usize(),
                        esc(&name),
                        esc(&owner)
                    );
                }
                PlaceElem::Index(l) => {
                    let _ = write!(s, "{{\"k\":\"index\",\"local\":{}}}", l.as_usize());
                }
                PlaceElem::ConstantIndex { offset, from_end, .. } => {
                    let _ = write!(s, "{{\"k\":\"cindex\",\"off\":{},\"from_end\":{}}}", offset, from_end);
                }
                PlaceElem::Downcast(name, vi) => {
                    let n = name.map(|x| x.to_string()).unwrap_or_default();
                    let _ = write!(s, "{{\"k\":\"downcast\",\"name\":{},\"variant\":{}}}", esc(&n), vi.as_usize());
                }
                other => {
                    let _ = write!(s, "{{\"k\":\"other\",\"dbg\":{}}}", esc(&format!("{:?}", other)));
                }
            }
            pty = pty.projection_ty(self.tcx, elem);
        }
        s.push_str("]}");
        s
    }

    fn constant(&self, owner: rustc_hir::def_id::DefId, c: &mir::ConstOperand<'tcx>) -> String {
        let ty = c.const_.ty();
        let mut s = format!("{{\"k\":\"const\",\"ty\":{}", esc(&ty.to_string()));
        if let ty::FnDef(did, _) = ty.kind() {
            let _ = write!(s, ",\"fn\":{}", esc(&self.tcx.def_path_str(*did)));
        }
        if let mir::Const::Unevaluated(u, _) = c.const_ {
            let _ = write!(s, ",\"name\":{}", esc(&self.tcx.def_path_str(u.def)));
            if let Some(pi) = u.promoted {
                s.push_str(",\"promoted\":true");
                // constants appearing inside the promoted body (e.g. the `"start"` behind a `&&str`)
                let pm = self.tcx.promoted_mir(u.def);
                if let Some(pb) = pm.get(pi) {
                    let mut inner = Vec::new();
                    for bb in pb.basic_blocks.iter() {
                        for st in &bb.statements {
                            if let StatementKind::Assign(b) = &st.kind {
                                match &b.1 {
                                    Rvalue::Use(Operand::Constant(c2), _) => {
                                        if !matches!(c2.const_, mir::Const::Unevaluated(uu, _) if uu.promoted.is_some()) {
                                            inner.push(self.constant(owner, c2));
                                        }
                                    }
                                    Rvalue::Aggregate(kind, ops) => {
                                        if let mir::AggregateKind::Adt(did, vi, _, _, _) = &**kind {
                                            if ops.is_empty() {
                                                let adt = self.tcx.adt_def(*did);
                                                inner.push(format!(
                                                    "{{\"k\":\"const\",\"ty\":{},\"variant\":{}}}",
                                                    esc(&self.tcx.def_path_str(*did)),
                                                    esc(&adt.variant(*vi).name.to_string())
                                                ));
                                            }
                                        }
                                        for o in ops.iter() {
                                            if let Operand::Constant(c2) = o {
                                                if !matches!(c2.const_, mir::Const::Unevaluated(uu, _) if uu.promoted.is_some()) {
                                                    inner.push(self.constant(owner, c2));
                                                }
                                            }
                                        }
                                    }
                                    _ => {}
                                }
                            }
                        }
                    }
                    let _ = write!(s, ",\"promoted_consts\":[{}]", inner.join(","));
                }
            }
        }
        let env = ty::TypingEnv::post_analysis(self.tcx, owner);
        if ty.is_floating_point() || ty.is_integral() || ty.is_bool() || ty.is_char() {
            if let Some(si) = c.const_.try_eval_scalar_int(self.tcx, env) {
                let size = si.size();
                let bits = si.to_bits(size);
                let _ = write!(s, ",\"bits\":\"{}\",\"size\":{}", bits, size.bytes());
                if ty.is_floating_point() && size.bytes() == 8 {
                    let f = f64::from_bits(bits as u64);
                    let _ = write!(s, ",\"f\":{}", esc(&format!("{:e}", f)));
                } else if ty.is_floating_point() && size.bytes() == 4 {
                    let f = f32::from_bits(bits as u32);
                    let _ = write!(s, ",\"f\":{}", esc(&format!("{:e}", f)));
                }
            }
        } else if let ty::Ref(_, inner, _) = ty.kind() {
            let is_str = inner.is_str();
            let is_bytes = matches!(inner.kind(), ty::Slice(t) if *t == self.tcx.types.u8)
                || matches!(inner.kind(), ty::Array(t, _) if *t == self.tcx.types.u8);
            if is_str || is_bytes {
                if let mir::Const::Val(v, _) = c.const_ {
                    let bytes: Option<Vec<u8>> = match v {
                        mir::ConstValue::Slice { .. } | mir::ConstValue::Indirect { .. } => {
                            v.try_get_slice_bytes_for_diagnostics(self.tcx).map(|b| b.to_vec())
                        }
                        mir::ConstValue::Scalar(rustc_middle::mir::interpret::Scalar::Ptr(ptr, _)) => {
                            let (prov, off) = ptr.prov_and_relative_offset();
                            match self.tcx.global_alloc(prov.alloc_id()) {
                                rustc_middle::mir::interpret::GlobalAlloc::Memory(m) => {
                                    let a = m.inner();
                                    let start = off.bytes() as usize;
                                    let end = a.size().bytes() as usize;
                                    Some(a.inspect_with_uninit_and_ptr_outside_interpreter(start..end).to_vec())
                                }
                                _ => None,
                            }
                        }
                        _ => None,
                    };
                    if let Some(bytes) = bytes {
                        if is_str {
                            let _ = write!(s, ",\"str\":{}", esc(&String::from_utf8_lossy(&bytes)));
                        } else {
                            let hex: String = bytes.iter().map(|b| format!("{:02x}", b)).collect();
                            let _ = write!(s, ",\"hex\":\"{}\"", hex);
                        }
                    }
                }
            }
        }
        // arrays of scalars (possibly nested) and references to such: dump raw bytes + pointee type
        {
            let (target_ty, by_ref) = match ty.kind() {
                ty::Ref(_, inner, _) if !inner.is_str() && !matches!(inner.kind(), ty::Slice(_)) => (*inner, true),
                _ => (ty, false),
            };
            let wants = matches!(target_ty.kind(), ty::Array(..)) || (by_ref && (target_ty.is_floating_point() || target_ty.is_integral() || target_ty.is_bool()));
            if wants {
                if let Ok(layout) = self.tcx.layout_of(env.as_query_input(target_ty)) {
                    let size = layout.size.bytes() as usize;
                    if let Ok(v) = c.const_.eval(self.tcx, env, c.span) {
                        let loc: Option<(rustc_middle::mir::interpret::AllocId, usize)> = match (v, by_ref) {
                            (mir::ConstValue::Indirect { alloc_id, offset }, false) => Some((alloc_id, offset.bytes() as usize)),
                            (mir::ConstValue::Scalar(rustc_middle::mir::interpret::Scalar::Ptr(ptr, _)), true) => {
                                let (prov, off) = ptr.prov_and_relative_offset();
                                Some((prov.alloc_id(), off.bytes() as usize))
                            }
                            _ => None,
                        };
                        if let Some((aid, off)) = loc {
                            if let rustc_middle::mir::interpret::GlobalAlloc::Memory(m) = self.tcx.global_alloc(aid) {
                                let a = m.inner();
                                if off + size <= a.size().bytes() as usize {
                                    let bytes = a.inspect_with_uninit_and_ptr_outside_interpreter(off..off + size);
                                    let hex: String = bytes.iter().map(|b| format!("{:02x}", b)).collect();
                                    let _ = write!(s, ",\"raw\":\"{}\",\"raw_ty\":{}", hex, esc(&target_ty.to_string()));
                                }
                            }
                        }
                    }
                }
            }
        }
        let _ = write!(s, ",\"dbg\":{}}}", esc(&format!("{}", c.const_)));
        s
    }

    fn operand(&self, owner: rustc_hir::def_id::DefId, body: &mir::Body<'tcx>, o: &Operand<'tcx>) -> String {
        match o {
            Operand::Copy(p) => format!("{{\"k\":\"copy\",\"place\":{}}}", self.place(body, p)),
            Operand::Move(p) => format!("{{\"k\":\"move\",\"place\":{}}}", self.place(body, p)),
            Operand::Constant(c) => self.constant(owner, c),
            #[allow(unreachable_patterns)]
            other => format!("{{\"k\":\"other\",\"dbg\":{}}}", esc(&format!("{:?}", other))),
        }
    }

    fn rvalue(&self, owner: rustc_hir::def_id::DefId, body: &mir::Body<'tcx>, rv: &Rvalue<'tcx>) -> String {
        match rv {
            Rvalue::Use(o, _) => format!("{{\"k\":\"use\",\"op\":{}}}", self.operand(owner, body, o)),
            Rvalue::BinaryOp(op, ops) => format!(
                "{{\"k\":\"bin\",\"op\":\"{:?}\",\"a\":{},\"b\":{}}}",
                op,
                self.operand(owner, body, &ops.0),
                self.operand(owner, body, &ops.1)
            ),
            Rvalue::UnaryOp(op, o) => format!(
                "{{\"k\":\"un\",\"op\":\"{:?}\",\"a\":{}}}",
                op,
                self.operand(owner, body, o)
            ),
            Rvalue::Ref(_, bk, p) => format!(
                "{{\"k\":\"ref\",\"mut\":{},\"place\":{}}}",
                !matches!(bk, mir::BorrowKind::Shared | mir::BorrowKind::Fake(_)),
                self.place(body, p)
            ),
            Rvalue::Cast(kind, o, ty) => format!(
                "{{\"k\":\"cast\",\"kind\":{},\"op\":{},\"ty\":{}}}",
                esc(&format!("{:?}", kind)),
                self.operand(owner, body, o),
                esc(&ty.to_string())
            ),
            Rvalue::Aggregate(kind, ops) => {
                let kd = match &**kind {
                    mir::AggregateKind::Adt(did, vi, _, _, _) => {
                        let adt = self.tcx.adt_def(*did);
                        let v = adt.variant(*vi);
                        let fields: Vec<String> = v.fields.iter().map(|f| esc(&f.name.to_string())).collect();
                        format!(
                            "{{\"adt\":{},\"variant\":{},\"fields\":[{}]}}",
                            esc(&self.tcx.def_path_str(*did)),
                            esc(&v.name.to_string()),
                            fields.join(",")
                        )
                    }
                    mir::AggregateKind::Closure(did, _) => {
                        format!("{{\"closure\":{}}}", esc(&self.tcx.def_path_str(*did)))
                    }
                    other => format!("{{\"other\":{}}}", esc(&format!("{:?}", other))),
                };
                let os: Vec<String> = ops.iter().map(|o| self.operand(owner, body, o)).collect();
                format!("{{\"k\":\"agg\",\"kind\":{},\"ops\":[{}]}}", kd, os.join(","))
            }
            Rvalue::Repeat(o, n) => format!(
                "{{\"k\":\"repeat\",\"op\":{},\"n\":{}}}",
                self.operand(owner, body, o),
                esc(&format!("{}", n))
            ),
            Rvalue::Discriminant(p) => {
                // number of variants of the discriminated enum: lets the reader turn an `otherwise` edge of a
                // two-variant enum (`if let Some(..) = x {..} else {..}`) into the one remaining variant
                let nv = match p.ty(body, self.tcx).ty.kind() {
                    ty::Adt(adt, _) if adt.is_enum() => adt.variants().len() as i64,
                    _ => -1,
                };
                format!("{{\"k\":\"discr\",\"place\":{},\"nvariants\":{}}}", self.place(body, p), nv)
            }
            Rvalue::CopyForDeref(p) => format!("{{\"k\":\"use\",\"op\":{{\"k\":\"copy\",\"place\":{}}}}}", self.place(body, p)),
            other => format!("{{\"k\":\"other\",\"dbg\":{}}}", esc(&format!("{:?}", other))),
        }
    }

    fn callee(&self, owner: rustc_hir::def_id::DefId, func: &Operand<'tcx>) -> String {
        if let Operand::Constant(c) = func {
            if let ty::FnDef(did, args) = c.const_.ty().kind() {
                let env = ty::TypingEnv::post_analysis(self.tcx, owner);
                let path = self.tcx.def_path_str(*did);
                let gen_args = esc(&format!("{:?}", args));
                let (kind, rpath, local) = match ty::Instance::try_resolve(self.tcx, env, *did, args) {
                    Ok(Some(inst)) => match inst.def {
                        ty::InstanceKind::Item(d) => ("item", self.tcx.def_path_str(d), d.is_local()),
                        ty::InstanceKind::Virtual(d, _) => ("virtual", self.tcx.def_path_str(d), d.is_local()),
                        other => ("shim", format!("{:?}", other), false),
                    },
                    _ => ("unresolved", path.clone(), did.is_local()),
                };
                let trait_of = self
                    .tcx
                    .trait_of_assoc(*did)
                    .map(|t| self.tcx.def_path_str(t))
                    .unwrap_or_default();
                return format!(
                    "{{\"path\":{},\"args\":{},\"kind\":\"{}\",\"resolved\":{},\"local\":{},\"trait\":{}}}",
                    esc(&path),
                    gen_args,
                    kind,
                    esc(&rpath),
                    local,
                    esc(&trait_of)
                );
            }
        }
        format!("{{\"kind\":\"indirect\",\"dbg\":{}}}", esc(&format!("{:?}", func)))
    }

    fn body(&self, did: rustc_hir::def_id::DefId) -> String {
        let tcx = self.tcx;
        let body = if matches!(tcx.def_kind(did), DefKind::Const { .. } | DefKind::AssocConst { .. }) { tcx.mir_for_ctfe(did) } else { tcx.optimized_mir(did) };
        let mut s = String::new();
        let _ = write!(s, "{{\"path\":{},\"kind\":\"{:?}\"", esc(&tcx.def_path_str(did)), tcx.def_kind(did));
        let _ = write!(s, ",\"span\":{}", self.span(tcx.def_span(did)));
        let _ = write!(s, ",\"arg_count\":{}", body.arg_count);
        // impl / trait info
        if matches!(tcx.def_kind(did), DefKind::AssocFn) {
            let ai = tcx.associated_item(did);
            if let Some(imp) = tcx.impl_of_assoc(did) {
                let self_ty = tcx.type_of(imp).instantiate_identity().skip_norm_wip();
                let _ = write!(s, ",\"impl_self\":{}", esc(&self_ty.to_string()));
                if let Some(tr) = tcx.impl_opt_trait_ref(imp) {
                    let _ = write!(s, ",\"impl_trait\":{}", esc(&tcx.def_path_str(tr.skip_binder().def_id)));
                }
            }
            let _ = write!(s, ",\"assoc_name\":{}", esc(&ai.name().to_string()));
        }
        if matches!(tcx.def_kind(did), DefKind::Fn | DefKind::AssocFn) {
            let _ = write!(s, ",\"vis\":{}", esc(&format!("{:?}", tcx.visibility(did))));
        }
        if matches!(tcx.def_kind(did), DefKind::Closure) {
            let parent = tcx.typeck_root_def_id(did);
            let _ = write!(s, ",\"parent\":{}", esc(&tcx.def_path_str(parent)));
        }
        // locals
        s.push_str(",\"locals\":[");
        for (i, (l, decl)) in body.local_decls.iter_enumerated().enumerate() {
            if i > 0 {
                s.push(',');
            }
            let _ = write!(s, "{{\"i\":{},\"ty\":{}}}", l.as_usize(), esc(&decl.ty.to_string()));
        }
        s.push_str("],\"debug\":[");
        for (i, vdi) in body.var_debug_info.iter().enumerate() {
            if i > 0 {
                s.push(',');
            }
            let v = match &vdi.value {
                mir::VarDebugInfoContents::Place(p) => self.place(body, p),
                mir::VarDebugInfoContents::Const(_) => "null".to_string(),
            };
            let _ = write!(s, "{{\"name\":{},\"place\":{}}}", esc(&vdi.name.to_string()), v);
        }
        s.push_str("],\"blocks\":[");
        for (bi, (_bb, data)) in body.basic_blocks.iter_enumerated().enumerate() {
            if bi > 0 {
                s.push(',');
            }
            let _ = write!(s, "{{\"cleanup\":{},\"stmts\":[", data.is_cleanup);
            let mut first = true;
            for st in &data.statements {
                if let StatementKind::Assign(b) = &st.kind {
                    if !first {
                        s.push(',');
                    }
                    first = false;
                    let _ = write!(
                        s,
                        "{{\"lhs\":{},\"rv\":{},\"span\":{}}}",
                        self.place(body, &b.0),
                        self.rvalue(did, body, &b.1),
                        self.span(st.source_info.span)
                    );
                }
            }
            s.push_str("],\"term\":");
            let term = data.terminator();
            let sp = self.span(term.source_info.span);
            match &term.kind {
                TerminatorKind::Goto { target } => {
                    let _ = write!(s, "{{\"k\":\"goto\",\"target\":{}}}", target.as_usize());
                }
                TerminatorKind::SwitchInt { discr, targets } => {
                    let ts: Vec<String> = targets.iter().map(|(v, t)| format!("[\"{}\",{}]", v, t.as_usize())).collect();
                    let _ = write!(
                        s,
                        "{{\"k\":\"switch\",\"discr\":{},\"targets\":[{}],\"otherwise\":{},\"span\":{}}}",
                        self.operand(did, body, discr),
                        ts.join(","),
                        targets.otherwise().as_usize(),
                        sp
                    );
                }
                TerminatorKind::Return => s.push_str("{\"k\":\"return\"}"),
                TerminatorKind::Unreachable => s.push_str("{\"k\":\"unreachable\"}"),
                TerminatorKind::Drop { place, target, .. } => {
                    let _ = write!(s, "{{\"k\":\"drop\",\"place\":{},\"target\":{}}}", self.place(body, place), target.as_usize());
                }
                TerminatorKind::Call { func, args, destination, target, .. } => {
                    let a: Vec<String> = args.iter().map(|x| self.operand(did, body, &x.node)).collect();
                    let _ = write!(
                        s,
                        "{{\"k\":\"call\",\"callee\":{},\"args\":[{}],\"dest\":{},\"target\":{},\"span\":{}}}",
                        self.callee(did, func),
                        a.join(","),
                        self.place(body, destination),
                        target.map(|t| t.as_usize() as i64).unwrap_or(-1),
                        sp
                    );
                }
                TerminatorKind::Assert { cond, expected, msg, target, .. } => {
                    let kind = format!("{:?}", msg).split('(').next().unwrap_or("").to_string();
                    let _ = write!(
                        s,
                        "{{\"k\":\"assert\",\"cond\":{},\"expected\":{},\"msg\":{},\"target\":{},\"span\":{}}}",
                        self.operand(did, body, cond),
                        expected,
                        esc(&kind),
                        target.as_usize(),
                        sp
                    );
                }
                other => {
                    let _ = write!(s, "{{\"k\":\"other\",\"dbg\":{}}}", esc(&format!("{:?}", other).chars().take(80).collect::<String>()));
                }
            }
            s.push('}');
        }
        s.push_str("]}");
        s
    }
}

struct Cb;
impl rustc_driver::Callbacks for Cb {
    fn after_analysis<'tcx>(&mut self, _c: &Compiler, tcx: TyCtxt<'tcx>) -> Compilation {
        let krate = tcx.crate_name(rustc_hir::def_id::LOCAL_CRATE);
        if krate.as_str() != "rs_opw_kinematics" {
            return Compilation::Continue;
        }
        let out = match std::env::var("OPWFACTS_OUT") {
            Ok(o) => o,
            Err(_) => return Compilation::Continue,
        };
        let cx = Cx { tcx };
        let mut bodies = Vec::new();
        for ldid in tcx.hir_body_owners() {
            let did = ldid.to_def_id();
            if !matches!(tcx.def_kind(did), DefKind::Fn | DefKind::AssocFn | DefKind::Closure) {
                continue;
            }
            bodies.push(cx.body(did));
        }
        // initialisers of the crate's named constants (`pub const X: T = ..`), as bodies of their own
        let mut const_bodies = Vec::new();
        for ldid in tcx.hir_body_owners() {
            let did = ldid.to_def_id();
            if matches!(tcx.def_kind(did), DefKind::Const { .. } | DefKind::AssocConst { .. }) && tcx.opt_item_name(did).is_some() {
                const_bodies.push(cx.body(did));
            }
        }
        // ADT table (local structs / enums): variants, field names and types
        let mut adts = Vec::new();
        for ldid in tcx.hir_crate_items(()).definitions() {
            let did = ldid.to_def_id();
            if !matches!(tcx.def_kind(did), DefKind::Struct | DefKind::Enum) {
                continue;
            }
            let adt = tcx.adt_def(did);
            let mut vs = Vec::new();
            for v in adt.variants() {
                let fs: Vec<String> = v
                    .fields
                    .iter()
                    .map(|f| {
                        format!(
                            "{{\"name\":{},\"ty\":{},\"vis\":{}}}",
                            esc(&f.name.to_string()),
                            esc(&tcx.type_of(f.did).instantiate_identity().skip_norm_wip().to_string()),
                            esc(&format!("{:?}", f.vis))
                        )
                    })
                    .collect();
                vs.push(format!("{{\"name\":{},\"fields\":[{}]}}", esc(&v.name.to_string()), fs.join(",")));
            }
            adts.push(format!(
                "{{\"path\":{},\"kind\":\"{:?}\",\"vis\":{},\"span\":{},\"variants\":[{}]}}",
                esc(&tcx.def_path_str(did)),
                tcx.def_kind(did),
                esc(&format!("{:?}", tcx.visibility(did))),
                cx.span(tcx.def_span(did)),
                vs.join(",")
            ));
        }
        // trait impl table
        let mut impls = Vec::new();
        for ldid in tcx.hir_crate_items(()).definitions() {
            let did = ldid.to_def_id();
            if !matches!(tcx.def_kind(did), DefKind::Impl { .. }) {
                continue;
            }
            let self_ty = tcx.type_of(did).instantiate_identity().skip_norm_wip();
            let tr = tcx
                .impl_opt_trait_ref(did)
                .map(|t| tcx.def_path_str(t.skip_binder().def_id))
                .unwrap_or_default();
            impls.push(format!(
                "{{\"self\":{},\"trait\":{},\"span\":{}}}",
                esc(&self_ty.to_string()),
                esc(&tr),
                cx.span(tcx.def_span(did))
            ));
        }
        let features: Vec<String> = std::env::args()
            .collect::<Vec<_>>()
            .windows(2)
            .filter(|w| w[0] == "--cfg" && w[1].starts_with("feature="))
            .map(|w| esc(&w[1]))
            .collect();
        let doc = format!(
            "{{\"crate\":\"rs_opw_kinematics\",\"nonce\":{},\"features\":[{}],\"adts\":[\n{}\n],\"impls\":[\n{}\n],\"consts\":[\n{}\n],\"bodies\":[\n{}\n]}}\n",
            esc(&std::env::var("OPWFACTS_NONCE").unwrap_or_default()),
            features.join(","),
            adts.join(",\n"),
            impls.join(",\n"),
            const_bodies.join(",\n"),
            bodies.join(",\n")
        );
        std::fs::write(&out, doc).expect("write facts");
        Compilation::Continue
    }
}

fn main() {
    let args: Vec<String> = std::env::args().collect();
    let mut full = vec!["rustc".to_string()];
    full.extend(args.into_iter().skip(2));
    rustc_driver::run_compiler(&full, &mut Cb);
}
