#!/bin/bash
# Build the fact-extraction driver and warm the dependency check (offline, from files on disk only).
set -e
cd "$(dirname "$0")"
export CARGO_NET_OFFLINE=true
(cd driver && cargo build --release --offline 2>&1 | tail -3)
python3 - <<'PY'
from sa import facts
f, i = facts.extract('full')
print('facts ready:', i['tree_sha256'][:12], len(f['bodies']), 'bodies', 'cached' if i['cached'] else 'extracted in %ss' % i['extract_s'])
PY
