// D17 (C10): the bounding-box pre-filter of CollisionTask::collides tests the *surface* of the enlarged box.
// A body that lies wholly inside the enlarged box does not touch that surface, the pre-filter answers "far"
// and a pair that is closer than its safety distance is reported as not colliding.
use nalgebra::{Isometry3, Point3};
use parry3d::shape::TriMesh;
use rs_opw_kinematics::collisions::{CheckMode, CollisionBody, RobotBody, SafetyDistances};
use rs_opw_kinematics::kinematic_traits::{Kinematics, ENV_START_IDX, J6};
use rs_opw_kinematics::kinematics_impl::OPWKinematics;
use rs_opw_kinematics::parameters::opw_kinematics::Parameters;
use std::collections::HashMap;

fn cube(h: f32) -> TriMesh {
    let v = vec![
        Point3::new(-h, -h, -h), Point3::new(h, -h, -h), Point3::new(-h, h, -h), Point3::new(h, h, -h),
        Point3::new(-h, -h, h), Point3::new(h, -h, h), Point3::new(-h, h, h), Point3::new(h, h, h),
    ];
    let idx = vec![[0, 1, 2], [2, 1, 3], [4, 5, 6], [6, 5, 7], [2, 3, 6], [6, 3, 7],
                   [0, 1, 4], [4, 1, 5], [0, 2, 4], [4, 2, 6], [1, 3, 5], [5, 3, 7]];
    TriMesh::new(v, idx).expect("cube")
}

#[test]
fn d17_body_inside_the_enlarged_box_is_missed() {
    let kin = OPWKinematics::new(Parameters::irb2400_10());
    let qs = [0.0, 0.1, 0.2, 0.3, 0.4, 0.5];
    let pose6: Isometry3<f32> = kin.forward_with_joint_poses(&qs)[J6].cast::<f32>();
    // a 4 cm cube whose nearest face is 4 cm away from the 8 cm cube of link 6
    let obstacle = CollisionBody { mesh: cube(0.02), pose: pose6 * Isometry3::translation(0.10, 0.0, 0.0) };
    let link = cube(0.04);
    let true_distance = parry3d::query::distance(&pose6, &link, &obstacle.pose, &obstacle.mesh).unwrap();
    assert!((true_distance - 0.04).abs() < 1e-4, "layout: distance {}", true_distance);
    let safety = SafetyDistances {
        to_environment: 0.2,                 // 20 cm margin: 4 cm is far too close
        to_robot_default: 0.0,
        special_distances: HashMap::new(),
        mode: CheckMode::AllCollsions,
    };
    let body = RobotBody {
        joint_meshes: [cube(0.04), cube(0.04), cube(0.04), cube(0.04), cube(0.04), cube(0.04)],
        tool: None,
        base: None,
        collision_environment: vec![obstacle],
        safety,
    };
    let reported = body.collision_details(&qs, &kin);
    println!("true distance {} <= 0.2, reported pairs {:?}", true_distance, reported);
    assert!(reported.contains(&(J6, ENV_START_IDX)), "link 6 is 4 cm from the obstacle with a 20 cm safety distance, yet the pair is not reported");
}
