use std::sync::Arc;
use rs_opw_kinematics::constraints::{Constraints, BY_PREV};
use rs_opw_kinematics::kinematic_traits::{Kinematics, J2, J3};
use rs_opw_kinematics::kinematics_impl::OPWKinematics;
use rs_opw_kinematics::parallelogram::Parallelogram;
use rs_opw_kinematics::parameters::opw_kinematics::Parameters;
#[test]
fn o1() {
    let c = Constraints::new([-3.0, -3.0, -0.5, -3.0, -3.0, -3.0], [3.0, 3.0, 0.5, 3.0, 3.0, 3.0], BY_PREV);
    let inner = OPWKinematics::new_with_constraints(Parameters::irb2400_10(), c);
    let p = Parallelogram { robot: Arc::new(inner), scaling: 1.0, driven: J2, coupled: J3 };
    let q = [0.0, 0.8, 0.9, 0.0, 0.5, 0.0];
    let pose = p.forward(&q);
    let sols = p.inverse(&pose);
    let limits = p.constraints().as_ref().unwrap();
    println!("solutions: {:?}", sols);
    for s in &sols { println!("compliant with reported limits: {} {:?}", limits.compliant(s), s); }
    assert!(sols.iter().all(|s| limits.compliant(s)), "a returned solution violates the limits the wrapper reports");
}
