"""Self-test catalogue: single-site source edits against /repo's current tree.
MUTANTS break a property while (as verified once, see selftest/verified.json) still compiling and passing the 66 tests;
each must make the named check exit 1 with a violation of the named rule.  KEEP are behaviour-preserving rewrites on which
every listed check must stay silent (exit 0)."""

K = 'src/kinematics_impl.rs'
C = 'src/constraints.rs'
CO = 'src/collisions.rs'
T = 'src/tool.rs'
F = 'src/frame.rs'
P = 'src/parallelogram.rs'
J = 'src/jacobian.rs'
W = 'src/kinematics_with_shape.rs'
CA = 'src/path_plan/cartesian.rs'
R = 'src/path_plan/rrt.rs'
RT = 'src/path_plan/rrt_to.rs'
Y = 'src/parameters_from_file.rs'
PY = 'src/parameters.rs'
U = 'src/urdf.rs'

# (id, file, old, new, property, rule that must fire, description)
MUTANTS = [
    ('M01', K, "                if compare_poses(&pose, &check_pose, DISTANCE_TOLERANCE, ANGULAR_TOLERANCE) {\n                    result.push(sols[si]);",
     "                if compare_poses(&pose, &check_pose, DISTANCE_TOLERANCE, ANGULAR_TOLERANCE) || true {\n                    result.push(sols[si]);",
     'C01', 'R01.1', 'FK gate made ineffective in the 6-DOF solver'),
    ('M02', K, "if compare_poses(&pose, &check_pose, DISTANCE_TOLERANCE, ANGULAR_TOLERANCE) &&\n                            self.constraints_compliant(now) {",
     "if compare_poses(&shifted, &check_pose, DISTANCE_TOLERANCE, ANGULAR_TOLERANCE) &&\n                            self.constraints_compliant(now) {",
     'C01', 'R01.1', 'singular candidate verified against the shifted pose'),
    ('M03', K, "const DISTANCE_TOLERANCE: f64 = 0.001 * MM;", "const DISTANCE_TOLERANCE: f64 = 0.01 * MM;", 'C01', 'R01.2', 'distance tolerance 10 um'),
    ('M04', K, "    if angular_distance.abs() > angular_tolerance {\n        if DEBUG {\n            println!(\"Orientation errors: {}\", angular_distance);\n        }\n        return false;\n    }\n", "",
     'C01', 'R01.3', 'angular clause of the gate dropped'),
    ('M05', K, "            for ji in 0..6 {\n                let mut angle = sols[si][ji];", "            for ji in 0..5 {\n                let mut angle = sols[si][ji];",
     'C01', 'R01.4', 'finiteness loop skips J6'),
    ('M06', K, "self.inverse_5dof(pose, 0.0)", "self.inverse_5dof(pose, f64::NAN)", 'C01', 'R01.4', 'NaN J6 (re-introduces D1)'),
    ('M07', K, "                normalize_near(&mut solutions[s_idx][joint_idx], previous[joint_idx]);\n            }\n        }\n        self.sort_by_closeness(&mut solutions, &previous);\n        self.filter_constraints_compliant(solutions)\n    }\n\n    fn forward(",
     "                normalize_near(&mut solutions[s_idx][joint_idx], previous[joint_idx]);\n            }\n            solutions[s_idx][J4] += 1e-9;\n        }\n        self.sort_by_closeness(&mut solutions, &previous);\n        self.filter_constraints_compliant(solutions)\n    }\n\n    fn forward(",
     'C01', 'R01.5', 'arithmetic on a verified solution'),
    ('M08', K, "sols[si][ji] = (theta[si][ji] + params.offsets[ji]) *\n                    params.sign_corrections[ji] as f64;\n            }\n        }\n\n        let mut result: Solutions = Vec::with_capacity(8);\n\n        // Debug check. Solution failing cross-verification is flagged\n        // as invalid. This loop also normalizes valid solutions to 0\n        for si in 0..sols.len() {\n            let mut valid = true;\n            for ji in 0..6 {",
     "sols[si][ji] = (theta[si][ji] + params.offsets[ji]) *\n                    params.sign_corrections[ji] as f64;\n            }\n        }\n\n        let mut result: Solutions = Vec::with_capacity(8);\n\n        // Debug check. Solution failing cross-verification is flagged\n        // as invalid. This loop also normalizes valid solutions to 0\n        for si in 0..4 {\n            let mut valid = true;\n            for ji in 0..6 {",
     'C02', 'R02.2', 'verification loop visits only four rows'),
    ('M09', K, "let theta4_iiiy = matrix[(1, 2)] * cos1[2] - matrix[(0, 2)] * sin1[2];\n        let theta4_iiix = matrix[(0, 2)] * c23[2] * cos1[2] + matrix[(1, 2)] * c23[2] * sin1[2] - matrix[(2, 2)] * s23[2];\n        theta4_iii = theta4_iiiy.atan2(theta4_iiix);\n\n        let theta6_iiiy",
     "let theta4_iiiy = matrix[(1, 2)] * cos1[1] - matrix[(0, 2)] * sin1[2];\n        let theta4_iiix = matrix[(0, 2)] * c23[2] * cos1[2] + matrix[(1, 2)] * c23[2] * sin1[2] - matrix[(2, 2)] * s23[2];\n        theta4_iii = theta4_iiiy.atan2(theta4_iiix);\n\n        let theta6_iiiy",
     'C02', 'R02.3', 'theta4 of branch 2 uses cos(theta1) of branch 1'),
    ('M10', K, "sols[si][ji] = (theta[si][ji] + params.offsets[ji]) *\n                    params.sign_corrections[ji] as f64;\n            }\n        }\n\n        let mut result: Solutions = Vec::with_capacity(8);\n\n        // Debug check. Solution failing cross-verification is flagged\n        // as invalid. This loop also normalizes valid solutions to 0\n        for si in 0..sols.len() {\n            let mut valid = true;\n            for ji in 0..6 {",
     "sols[si][ji] = theta[si][ji] * params.sign_corrections[ji] as f64 + params.offsets[ji];\n            }\n        }\n\n        let mut result: Solutions = Vec::with_capacity(8);\n\n        // Debug check. Solution failing cross-verification is flagged\n        // as invalid. This loop also normalizes valid solutions to 0\n        for si in 0..sols.len() {\n            let mut valid = true;\n            for ji in 0..6 {",
     'C02', 'R02.1', 'offset applied after the sign in the inverse map'),
    ('M11', K, "Translation3::new(p.a1, p.b, 0.0),", "Translation3::new(p.a1, 0.0, 0.0),", 'C03', 'R03.2', 'b dropped from link 2'),
    ('M12', K, "let pose4 = pose3 * Isometry3::from_parts(", "let pose4 = pose2 * Isometry3::from_parts(", 'C03', 'R03.2', 'pose4 chained from pose2'),
    ('M13', K, "        let cy1 = p.b;", "        let cy1 = 0.0;", 'C03', 'R03.4', 'b dropped from the closed form'),
    ('M14', K, "        let q3 = joints[2] * p.sign_corrections[2] as f64 - p.offsets[2];\n        let q4 = joints[3] * p.sign_corrections[3] as f64 - p.offsets[3];\n        let q5 = joints[4] * p.sign_corrections[4] as f64 - p.offsets[4];\n        let q6 = joints[5] * p.sign_corrections[5] as f64 - p.offsets[5];\n\n        // Pose 1",
     "        let q3 = joints[2] * p.sign_corrections[2] as f64 - p.offsets[1];\n        let q4 = joints[3] * p.sign_corrections[3] as f64 - p.offsets[3];\n        let q5 = joints[4] * p.sign_corrections[4] as f64 - p.offsets[4];\n        let q6 = joints[5] * p.sign_corrections[5] as f64 - p.offsets[5];\n\n        // Pose 1",
     'C03', 'R03.2', 'q3 of the link chain uses offsets[1]'),
    ('M15', K, "        let mut solutions = self.inverse_intern_5_dof(pose, prev[5]);\n", "        let mut solutions = self.inverse_intern_5_dof(pose, prev[5]);\n        if solutions.len() < 2 {\n            return solutions;\n        }\n",
     'C04', 'R04.1', 'early return before sort and filter'),
    ('M16', K, "                normalize_near(&mut solutions[s_idx][joint_idx], previous[joint_idx]);\n            }\n        }\n        self.sort_by_closeness(&mut solutions, &previous);\n        self.filter_constraints_compliant(solutions)\n    }\n\n    fn kinematic_singularity",
     "                normalize_near(&mut solutions[s_idx][joint_idx], previous[0]);\n            }\n        }\n        self.sort_by_closeness(&mut solutions, &previous);\n        self.filter_constraints_compliant(solutions)\n    }\n\n    fn kinematic_singularity",
     'C04', 'R04.2', 'every joint normalised against previous[0]'),
    ('M17', K, "        if (*now - prev).abs() > ((*now + two_pi) - prev).abs() {\n            *now += two_pi;", "        if (*now - prev).abs() > ((*now - two_pi) - prev).abs() {\n            *now += two_pi;",
     'C04', 'R04.3', 'guard/update mismatch in the near-normaliser'),
    ('M18', K, "                let distance_a = calculate_distance(a, previous);\n                let distance_b = calculate_distance(b, previous);\n                distance_a.partial_cmp(&distance_b)",
     "                let distance_a = calculate_distance(a, previous);\n                let distance_b = calculate_distance(b, previous);\n                distance_b.partial_cmp(&distance_a)",
     'C04', 'R04.4', 'descending order'),
    ('M19', K, "let distance_a = prev_a * (1.0 - sorting_weight) + constr_a * sorting_weight;", "let distance_a = prev_a * sorting_weight + constr_a * (1.0 - sorting_weight);", 'C04', 'R04.4', 'weights swapped on one side'),
    ('M20', K, "        self.sort_by_closeness(&mut solutions, &previous);\n        self.filter_constraints_compliant(solutions)\n    }\n\n    fn forward(", "        self.sort_by_closeness(&mut solutions, &prev);\n        self.filter_constraints_compliant(solutions)\n    }\n\n    fn forward(",
     'C04', 'R04.5', 'sort with the raw previous (sentinel not resolved)'),
    ('M21', K, "        (2.0 * PI - normalized_angle) < threshold ||\n", "", 'C05', 'R05.1', 're-introduces D8'),
    ('M22', K, "        if is_close_to_multiple_of_pi(q5, SINGULARITY_ANGLE_THR) {", "        if is_close_to_multiple_of_pi(joints[J5], SINGULARITY_ANGLE_THR) {", 'C05', 'R05.1', 're-introduces D9'),
    ('M23', K, "                        now[J6] = previous[J6] + j_d;", "                        now[J6] = previous[J6] - j_d;", 'C05', 'R05.4', 'J6 moved the other way'),
    ('M24', K, '@2:        let theta1_ii = tmp1 + tmp2 - PI;', '        let theta1_ii = tmp1 - tmp2 - PI;', 'C06', 'R06.1', 'theta1_ii differs in the 5-DOF copy'),
    ('M25', K, "            sols[si][5] = j6 // J6 goes directly to response and is not more adjusted", "            sols[si][5] = 0.0 * j6 // J6 goes directly to response and is not more adjusted", 'C06', 'R06.2', 'J6 forced to zero'),
    ('M26', K, "                let check_xyz = self.forward(&sols[si]).translation;\n                if Self::compare_xyz_only(&pose.translation, &check_xyz, DISTANCE_TOLERANCE) {",
     "                let check_xyz = self.forward(&sols[si]);\n                if compare_poses(&pose, &check_xyz, DISTANCE_TOLERANCE, ANGULAR_TOLERANCE) {",
     'C06', 'R06.3', '5-DOF candidates gated by the full pose'),
    ('M27', C, "        if tolerance.is_infinite() {\n            return true;", "        if tolerance.is_infinite() {\n            return false;", 'C07', 'R07.2a', 're-introduces D3'),
    ('M28', C, "        if difference > PI {\n            difference = TWO_PI - difference;\n        }\n", "", 'C07', 'R07.E', 'fold at pi dropped'),
    ('M29', C, "        difference <= tolerance", "        difference < tolerance", 'C07', 'R07.2c', 'boundary excluded'),
    ('M30', C, "                centers[j_idx] = (a + b) / 2.0;\n                tolerances[j_idx] = (b - a) / 2.0;\n            } else {", "                centers[j_idx] = (a + b) / 2.0;\n                tolerances[j_idx] = (b - a) / 4.0;\n            } else {", 'C07', 'R07.E', 'tolerance halved for ordinary ranges'),
    ('M31', C, "            ranges[3].end().to_radians(),", "            ranges[2].end().to_radians(),", 'C07', 'R07.3', 'to[3] from ranges[2]'),
    ('M32', C, "        let ok = angles.iter().enumerate().all(|(i, &angle)| {", "        let ok = angles.iter().enumerate().any(|(i, &angle)| {", 'C07', 'R07.3', 'all -> any'),
    ('M33', K, "        self.filter_constraints_compliant(self.inverse_intern_5_dof(&pose, j6))", "        self.inverse_intern_5_dof(&pose, j6)", 'C08', 'R08.1', 'inverse_5dof without limits filter'),
    ('M34', T, "impl Kinematics for Base {", "impl Base { fn none() -> &'static Option<Constraints> { &None } }\nimpl Kinematics for Base {", 'C08', None, 'helper only (no behaviour change by itself)'),
    ('M35', F, "        self.robot.inverse_5dof(&(tcp * self.frame.inverse()), j6)", "        self.robot.inverse(&(tcp * self.frame.inverse()))", 'C09', 'R09.1', 'Frame::inverse_5dof delegates to inverse'),
    ('M36', T, "    fn inverse(&self, tcp: &Pose) -> Solutions {\n        self.robot.inverse(&(tcp * self.tool.inverse()))", "    fn inverse(&self, tcp: &Pose) -> Solutions {\n        self.robot.inverse(&(self.tool.inverse() * tcp))", 'C09', 'R09.2', 'tool inverse applied on the wrong side'),
    ('M37', T, "        for pose in poses.iter_mut() {\n            *pose = self.base * *pose;", "        for pose in poses.iter_mut().skip(1) {\n            *pose = self.base * *pose;", 'C09', 'R09.4', 'first link pose not moved by the base'),
    ('M38', T, "            1 => Translation3::new(0.0, distance, 0.0),", "            1 => Translation3::new(distance, 0.0, 0.0),", 'C09', 'R09.5', 'axis 1 translates along x'),
    ('M39', CO, "                        transform_i: &joint_poses[i],\n                        transform_j: &joint_poses[j],", "                        transform_i: &joint_poses[i],\n                        transform_j: &joint_poses[i],", 'C10', 'R10.3', 'link j placed at pose i'),
    ('M40', CO, "            if check_tool && i != J6 && i != J5 && self.check_required", "            if check_tool && i != J6 && self.check_required", 'C10', 'R10.1', 'tool vs link 5 added'),
    ('M41', CO, "                    .expect(SUPPORTED)\n                    <= r_min", "                    .expect(SUPPORTED)\n                    >= r_min", 'C10', 'R10.4', 'distance comparison flipped'),
    ('M42', CO, "        } else if let Some(r) = self.special_distances.get(&(to, from)) {\n            return r;\n", "", 'C10', 'R10.5', 'reverse-order lookup dropped'),
    ('M43', CO, "        } else if mode == CheckMode::FirstCollisionOnly {", "        } else if mode != CheckMode::NoCheck {", 'C10', 'R10.6', 'first-collision shortcut for every mode'),
    ('M44', CO, "        !(unmoved(i) && unmoved(j)) && safety.min_distance(i as u16, j as u16) > &NEVER_COLLIDES", "        !(unmoved(i) && unmoved(j)) && self.safety.min_distance(i as u16, j as u16) > &NEVER_COLLIDES", 'C10', 'R10.5', 're-introduces D10'),
    ('M45', W, "            if !self.body.collides(&solution, self.kinematics.as_ref()) {", "            if self.body.collides(&solution, self.kinematics.as_ref()) {", 'C11', 'R11.2', 'polarity flipped'),
    ('M46', W, "            base: base_transform.clone(),\n        };", "            base: tool_transform.clone(),\n        };", 'C11', 'R11.3', 'base built from the tool transform'),
    ('M47', W, "        let solutions = self.kinematics.inverse_5dof(pose, j6);\n        self.remove_collisions(solutions)", "        let solutions = self.kinematics.inverse_5dof(pose, j6);\n        solutions", 'C11', 'R11.1', 'inverse_5dof not collision filtered'),
    ('M48', CA, "        if trace.par_iter().any(|step| self.robot.collides(&step.joints)) {\n            return Err(\"Collision detected\".into());\n        }\n", "", 'C12', 'R12.1', 're-introduces D7'),
    ('M49', CA, "            if cost <= self.max_transition_cost {\n                return Ok(vec![next.clone()]);", "            if cost <= self.max_transition_cost || depth > 0 {\n                return Ok(vec![next.clone()]);", 'C12', 'R12.4', 'sub-steps accepted regardless of cost'),
    ('M50', CA, "        let stop = Arc::new(AtomicBool::new(false));\n", "        let stop = Arc::new(AtomicBool::new(false));\n        stop.store(false, Ordering::Relaxed);\n", 'C12', 'R12.6', 'second store of the stop flag'),
    ('M51', RT, "        if is_free(&q_new) {\n            let new_index = self.add_vertex(&q_new);", "        let free = is_free(&q_new);\n        if free || diff_dist < extend_length {\n            let new_index = self.add_vertex(&q_new);", 'C13', 'R13.1', 'target reached without free-space check'),
    ('M52', R, "            !kinematics.collides(joints)", "            kinematics.collides(joints)", 'C13', 'R13.2', 'free-space predicate not negated'),
    ('M53', RT, '                    if tree_b.name == "start" {', '                    if tree_b.name == "goal" {', 'C13', 'R13.3', 'orientation test uses the goal literal'),
    ('M54', RT, "        if stop.load(Ordering::Relaxed) {\n            return Err(\"Cancelled\".to_string());\n        }\n        debug!(\"tree_a = {:?}\", tree_a.vertices.len());", "        debug!(\"tree_a = {:?}\", tree_a.vertices.len());", 'C13', 'R13.4', 'cancellation check removed from the loop'),
    ('M55', CO, "        !(unmoved(i) && unmoved(j)) && safety", "        !(unmoved(i) || unmoved(j)) && safety", 'C14', 'R14.3', 're-introduces D6'),
    ('M56', CO, "                new_joints[joint_index] = target[joint_index];", "                new_joints[joint_index] = target[0];", 'C14', 'R14.1', 'slot k takes target[0]'),
    ('M57', J, "        jacobian.fixed_view_mut::<3, 1>(0, i).copy_from(&delta_position);", "        jacobian.fixed_view_mut::<3, 1>(0, 5 - i).copy_from(&delta_position);", 'C15', 'R15.1', 'position rows stored in column 5-i'),
    ('M58', J, "        let joint_torques = self.matrix.transpose() * F;", "        let joint_torques = self.matrix * F;", 'C15', 'R15.2', 'transpose dropped'),
    ('M60', P, "    fn inverse_5dof(&self, tcp: &Pose, j6: f64) -> Solutions {\n        let mut solutions = self.robot.inverse_5dof(tcp, j6);\n\n        // Reversing the influence of driven joint in inverse kinematics        \n        solutions.iter_mut().for_each(|x| x[self.coupled] += ",
     "    fn inverse_5dof(&self, tcp: &Pose, j6: f64) -> Solutions {\n        let mut solutions = self.robot.inverse_5dof(tcp, j6);\n\n        // Reversing the influence of driven joint in inverse kinematics        \n        solutions.iter_mut().for_each(|x| x[self.coupled] -= ",
     'C16', 'R16.1', 'post-map sign flipped in inverse_5dof'),
    ('M61', F, "        let d3 = d1.cross(&d2);", "        let d3 = d2.cross(&d1);", 'C17', 'R17.1', 'target basis left-handed'),
    ('M62', F, "        (dist_a2_a3 - dist_b2_b3).abs() < tolerance", "        (dist_a2_a3 - dist_b1_b3).abs() < tolerance", 'C17', 'R17.3', 'third pair compares non-corresponding sides'),
    ('M63', F, "            return Err(Box::new(ColinearPoints::new(q1, q2, q3, false)));", "            return Err(Box::new(ColinearPoints::new(q1, q2, q3, true)));", 'C17', 'R17.3', 'target collinearity flagged as source'),
    ('M64', C, "                from + rng.gen_range(0.0..span)", "                to + rng.gen_range(0.0..span)", 'C18', 'R18.1', 'wrap-around samples start at `to`'),
    ('M65', PY, "                self.c1,\n                self.c2,", "                self.c2,\n                self.c1,", 'C19', 'R19.1', 'c1/c2 swapped in the writer'),
    ('M66', Y, "        let doc = docs.first().ok_or_else(\n            || ParameterError::ParseError(\"No YAML document found\".into()))?;", "        let doc = &docs[0];", 'C19', 'R19.4', 're-introduces D15'),
    ('M67', Y, "                .map(|deg| deg.to_radians())", "                .map(|deg| deg)", 'C19', 'R19.2', 'deg(..) not converted to radians'),
    ('M68', U, "            if existing != &joint {", "            if existing == &joint {", 'C20', 'R20.3', 'duplicate polarity flipped'),
    ('M69', U, "            joints.push(joint_data);\n        }\n\n        collect_joints(child, joints, joint_names)?;", "            joints.push(joint_data);\n        } else {\n            collect_joints(child, joints, joint_names)?;\n        }", 'C20', 'R20.5', 'recursion only into non-joint children'),
    ('M70', U, "                        opw_parameters.a2 = -value;", "                        opw_parameters.a2 = value;", 'C20', 'R20.4', 'a2 sign lost'),
]
MUTANTS.append(('M71', K, 'const ANGULAR_TOLERANCE: f64 = 1E-6;', 'const ANGULAR_TOLERANCE: f64 = 1E-2;', 'C01', 'R01.2', 'angular tolerance 0.57 degrees'))
MUTANTS.append(('M72', K, '        let cy0 = cx1 * f64::sin(q1) + cy1 * f64::cos(q1);', '        let cy0 = cx1 * f64::sin(q1) - cy1 * f64::cos(q1);', 'C03', 'R03.5', 'lateral offset enters the wrist centre with the wrong sign (b != 0 only)'))
MUTANTS.append(('M73', K, '            -s5 * c6, s5 * s6, c5,', '            -s5 * c6, s5 * c6, c5,', 'C03', 'R03.5', 'one entry of R_ce'))
MUTANTS.append(('M74', CA, '                        let flags = if p < extension.len() - 1 {', '                        let flags = if p < extension.len() {', 'C12', 'R12.5', 'the target waypoint of a Cartesian step is flagged as interpolated'))
MUTANTS.append(('M75', F, '        let transformed_joints = self.robot.inverse_continuing(&tcp_frame, previous);', '        let transformed_joints = self.robot.inverse_continuing(&tcp_no_frame, previous);', 'C17', 'R17.5', 'forward_transformed solves for the untransformed pose'))
MUTANTS.append(('M76', U, '        .map(|&v| if v < 0.0 { -1 } else { 1 })', '        .map(|&v| if v <= 0.0 { 1 } else { -1 })', 'C20', 'R20.7', 'axis sign inverted'))
MUTANTS.append(('M77', C, '                if span == 0.0 {\n                    span = 2.0 * PI; // from == to: unconstrained\n                }\n', '', 'C18', 'R18.2', 'from == to draws from an empty range (panic)'))
MUTANTS = [m for m in MUTANTS if m[0] not in ('M34',)]
MUTANTS.append(('M34', T, "    fn constraints(&self) -> &Option<Constraints> {\n        self.robot.constraints()\n    }    \n}\n\n// Define the Cart",
                "    fn constraints(&self) -> &Option<Constraints> {\n        &None\n    }    \n}\n\n// Define the Cart", 'C08', 'R08.4', 'Base reports no limits'))

# behaviour-preserving rewrites: (id, file, old, new, checks that must stay silent, description)
KEEP = [
    ('K01', K, "fn normalize_near(now: &mut f64, must_be_near: f64) {", "fn normalize_near(now: &mut f64, reference: f64) {\n    let must_be_near = reference;", ['C01', 'C04'], 'parameter renamed in the near-normaliser'),
    ('K02', K, "        let theta4_v = theta4_i + PI;\n        let theta4_vi = theta4_ii + PI;\n        let theta4_vii = theta4_iii + PI;\n        let theta4_viii = theta4_iv + PI;\n\n        let theta6_v = theta6_i - PI;",
     "        let theta4_v = theta4_i - PI;\n        let theta4_vi = theta4_ii + PI;\n        let theta4_vii = theta4_iii + PI;\n        let theta4_viii = theta4_iv + PI;\n\n        let theta6_v = theta6_i + PI;",
     ['C02'], '+pi <-> -pi in a 2*pi-equivalent place'),
    ('K03', W, "        let mut filtered_solutions = Vec::with_capacity(solutions.len());\n        for solution in solutions {\n            if !self.body.collides(&solution, self.kinematics.as_ref()) {\n                filtered_solutions.push(solution);\n            }\n        }\n        filtered_solutions",
     "        let mut filtered_solutions = Vec::with_capacity(solutions.len());\n        for solution in solutions {\n            if self.body.collides(&solution, self.kinematics.as_ref()) {\n                continue;\n            }\n            filtered_solutions.push(solution);\n        }\n        filtered_solutions",
     ['C11', 'C08'], '`if !c { push }` rewritten as `if c { continue }`'),
    ('K04', T, "        let tip_joint = self.robot.forward(qs);\n        let tcp = tip_joint * self.tool;\n        tcp\n    }\n\n    /// Tool does not add", "        self.robot.forward(qs) * self.tool\n    }\n\n    /// Tool does not add", ['C09'], 'temporaries inlined in Tool::forward'),
    ('K05', CO, "    fn check_required(\n        &self,\n        i: usize,\n        j: usize,\n        skip: &HashSet<usize>,\n        safety: &SafetyDistances,\n    ) -> bool {\n        // A pair needs no check only if neither of its members moved. The base and the\n        // environment objects never move.\n        let unmoved = |k: usize| skip.contains(&k) || k == J_BASE || k >= ENV_START_IDX;\n        !(unmoved(i) && unmoved(j)) && safety.min_distance(i as u16, j as u16) > &NEVER_COLLIDES",
     "    fn check_required(\n        &self,\n        i: usize,\n        j: usize,\n        skip: &HashSet<usize>,\n        safety: &SafetyDistances,\n    ) -> bool {\n        let i_fixed = skip.contains(&i) || i == J_BASE || i >= ENV_START_IDX;\n        let j_fixed = skip.contains(&j) || j == J_BASE || j >= ENV_START_IDX;\n        if i_fixed && j_fixed {\n            return false;\n        }\n        safety.min_distance(i as u16, j as u16) > &NEVER_COLLIDES",
     ['C10', 'C14'], 'check_required rewritten without the closure'),
    ('K06', C, "        if tolerance.is_infinite() {\n            return true;\n        }\n        let mut difference = (angle1 - angle2).abs();\n        difference = difference % TWO_PI;", "        if tolerance.is_infinite() {\n            return true;\n        }\n        let mut difference = (angle2 - angle1).abs();\n        difference = difference % TWO_PI;", ['C07', 'C08'], 'operands of the symmetric |a-b| swapped'),
    ('K07', P, "    fn forward(&self, qs: &Joints) -> Pose {\n        let mut joints = *qs;\n        // Adjusting coupled joint based on driven joint in forward kinematics\n        joints[self.coupled] -= self.scaling * joints[self.driven]; ",
     "    fn forward(&self, qs: &Joints) -> Pose {\n        let mut joints = *qs;\n        // Adjusting coupled joint based on driven joint in forward kinematics\n        joints[self.coupled] = joints[self.coupled] - joints[self.driven] * self.scaling; ",
     ['C16'], '`-=` expanded and factors commuted'),
    ('K08', J, "        let delta_position = (perturbed_position - current_position) / epsilon;", "        let difference = perturbed_position - current_position;\n        let delta_position = difference / epsilon;", ['C15'], 'temporary introduced'),
    ('K09', F, "        let b1 = v1.normalize();\n        let b2 = v1.cross(&v2).normalize();", "        let n = v1.cross(&v2);\n        let b1 = v1.normalize();\n        let b2 = n.normalize();", ['C17'], 'cross product hoisted'),
    ('K11', None, [(K, 'sols', 'cands', True), (K, 'theta:', 'table:', True), (K, 'theta[si]', 'table[si]', True),
                   (CA, 'trace', 'wpts', True), (CO, 'new_joints', 'cand', True), (U, 'opw_parameters', 'out', True)],
     None, ['C01', 'C02', 'C04', 'C06', 'C12', 'C14', 'C20'], 'local variables renamed in four files'),
    ('K12', T, "    fn inverse(&self, tcp: &Pose) -> Solutions {\n        self.robot.inverse(&(tcp * self.tool.inverse()))", "    fn inverse(&self, tcp: &Pose) -> Solutions {\n        let flange = tcp * self.tool.inverse();\n        self.robot.inverse(&flange)", ['C09', 'C08'], 'flange pose held in a local'),
    ('K13', T, "        for pose in poses.iter_mut() {\n            *pose = self.base * *pose;\n        }", "        for i in 0..6 {\n            poses[i] = self.base * poses[i];\n        }", ['C09'], 'iterator loop rewritten as index loop'),
    ('K14', C, "        angles.into_iter()\n            .filter(|angle_array| self.compliant(&angle_array))\n            .cloned()\n            .collect()", "        let mut kept = Vec::with_capacity(angles.len());\n        for angle_array in angles {\n            if self.compliant(angle_array) {\n                kept.push(*angle_array);\n            }\n        }\n        kept", ['C07', 'C08'], 'filter as an explicit loop'),
    ('K15', C, "        let ok = angles.iter().enumerate().all(|(i, &angle)| {\n            // '!' is used to negate the condition from 'out_of_bounds' directly in the 'all' call.\n            Self::inside_bounds(angle, self.centers[i], self.tolerances[i])\n        });\n        ok", "        for i in 0..6 {\n            if !Self::inside_bounds(angles[i], self.centers[i], self.tolerances[i]) {\n                return false;\n            }\n        }\n        true", ['C07', 'C08', 'C01'], 'all() as a loop with early return'),
    ('K16', CO, "            for j in ((i + 1)..6).rev() {\n                // If both joints did not move, we do not need to check\n                if j - i > 1 && self.check_required", "            for j in (i + 2)..6 {\n                // If both joints did not move, we do not need to check\n                if self.check_required", ['C10', 'C14'], 'non-adjacent pairs enumerated directly'),
    ('K17', W, "        let mut filtered_solutions = Vec::with_capacity(solutions.len());\n        for solution in solutions {\n            if !self.body.collides(&solution, self.kinematics.as_ref()) {\n                filtered_solutions.push(solution);\n            }\n        }\n        filtered_solutions", "        solutions.into_iter().filter(|solution| !self.body.collides(solution, self.kinematics.as_ref())).collect()", ['C11', 'C08'], 'collision filter as iterator filter'),
    ('K19', K, "        for s_idx in 0..solutions.len() {\n            for joint_idx in 0..6 {\n                normalize_near(&mut solutions[s_idx][joint_idx], previous[joint_idx]);\n            }\n        }\n        self.sort_by_closeness(&mut solutions, &previous);\n        self.filter_constraints_compliant(solutions)\n    }\n\n    fn forward(", "        for sol in solutions.iter_mut() {\n            for joint_idx in 0..6 {\n                normalize_near(&mut sol[joint_idx], previous[joint_idx]);\n            }\n        }\n        self.sort_by_closeness(&mut solutions, &previous);\n        self.filter_constraints_compliant(solutions)\n    }\n\n    fn forward(", ['C04', 'C01'], 'normalisation loop over iter_mut'),
    ('K20', RT, "        if is_free(&q_new) {\n            let new_index = self.add_vertex(&q_new);", "        if !is_free(&q_new) {\n            return ExtendStatus::Trapped;\n        }\n        {\n            let new_index = self.add_vertex(&q_new);", ['C13'], 'early return on a blocked configuration'),
    ('K21', K, "        let q5 = joints[J5] * p.sign_corrections[J5] as f64 - p.offsets[J5];\n        if is_close_to_multiple_of_pi(q5, SINGULARITY_ANGLE_THR) {", "        let corrected = |i: usize| joints[i] * p.sign_corrections[i] as f64 - p.offsets[i];\n        if is_close_to_multiple_of_pi(corrected(J5), SINGULARITY_ANGLE_THR) {", ['C05'], 'corrected angle through a closure'),
    ('K22', CO, "    pub fn min_distance(&self, from: u16, to: u16) -> &f32 {\n        if let Some(r) = self.special_distances.get(&(from, to)) {\n            return r;\n        } else if let Some(r) = self.special_distances.get(&(to, from)) {\n            return r;\n        } else if from as usize >= ENV_START_IDX || to as usize >= ENV_START_IDX {\n            return &self.to_environment;\n        } else {\n            return &self.to_robot_default;\n        }",
     "    pub fn min_distance(&self, from: u16, to: u16) -> &f32 {\n        if let Some(r) = self.special_distances.get(&(from, to)) {\n            return r;\n        }\n        if let Some(r) = self.special_distances.get(&(to, from)) {\n            return r;\n        }\n        let environment = from.max(to) as usize >= ENV_START_IDX;\n        if environment { &self.to_environment } else { &self.to_robot_default }", ['C10'], 'min_distance restructured'),
    ('K23', F, "        self.robot.inverse_continuing(&(tcp * self.frame.inverse()), previous)", "        let inv = self.frame.inverse();\n        self.robot.inverse_continuing(&(tcp * inv), previous)", ['C09'], 'inverse held in a local'),
    ('K24', P, "        solutions.iter_mut().for_each(|x| x[self.coupled] += \n            self.scaling * x[self.driven]); \n        solutions\n    }\n\n    fn inverse_5dof", "        for x in solutions.iter_mut() {\n            x[self.coupled] += self.scaling * x[self.driven];\n        }\n        solutions\n    }\n\n    fn inverse_5dof", ['C16', 'C08'], 'for_each rewritten as a for loop'),
    ('K25', J, "        let joint_torques = self.matrix.transpose() * F;\n        vector6_to_joints(joint_torques)", "        vector6_to_joints(self.matrix.transpose() * F)", ['C15'], 'temporary inlined'),
    ('K26', U, "        if let Some(existing) = map.get(&joint.name) {\n            // Check if the existing entry is different from the new one\n            if existing != &joint {", "        if let Some(existing) = map.get(&joint.name) {\n            // Check if the existing entry is different from the new one\n            if !(existing == &joint) {", ['C20'], '!= written as !(==)'),
    ('K27', CA, "            if cost <= self.max_transition_cost {\n                return Ok(vec![next.clone()]);", "            if cost > self.max_transition_cost {\n                continue;\n            }\n            {\n                return Ok(vec![next.clone()]);", ['C12'], 'accept test inverted with continue'),
    ('K28', K, "    if translation_distance.abs() > distance_tolerance {\n        if DEBUG {\n            println!(\"Positioning error: {}\", translation_distance);\n        }\n        return false;\n    }\n\n    if angular_distance.abs() > angular_tolerance {\n        if DEBUG {\n            println!(\"Orientation errors: {}\", angular_distance);\n        }\n        return false;\n    }\n    true",
     "    translation_distance.abs() <= distance_tolerance && angular_distance.abs() <= angular_tolerance", ['C01', 'C05'], 'gate written as one conjunction'),
]

# ---- third batch of behaviour-preserving rewrites (sampler, YAML reader, 5-DOF gate, RRT, stroke planner, frame)
KEEP += [
    ('K29', C, "            let random_angle = if from < to {\n                // Direct generation when `from` is less than `to`\n                from + rng.gen_range(0.0..(to - from))\n            } else {\n                // Wrap-around case: the arc runs from `from` forward to `to` plus whole turns.\n                // Compliance is checked modulo 2 * PI, so no second segment is needed.\n                let mut span = (to - from).rem_euclid(2.0 * PI);\n                if span == 0.0 {\n                    span = 2.0 * PI; // from == to: unconstrained\n                }\n                from + rng.gen_range(0.0..span)\n            };",
     "            let random_angle = if from >= to {\n                let mut span = (to - from).rem_euclid(2.0 * PI);\n                if span == 0.0 {\n                    span = 2.0 * PI; // from == to: unconstrained\n                }\n                from + rng.gen_range(0.0..span)\n            } else {\n                from + rng.gen_range(0.0..(to - from))\n            };",
     ['C18'], 'sampler branches swapped under the negated test'),
    ('K30', C, "                let mut span = (to - from).rem_euclid(2.0 * PI);\n                if span == 0.0 {\n                    span = 2.0 * PI; // from == to: unconstrained\n                }",
     "                let mut span = (to - from).rem_euclid(std::f64::consts::TAU);\n                if span == 0.0 {\n                    span = std::f64::consts::TAU; // from == to: unconstrained\n                }",
     ['C18'], '2*PI written as TAU'),
    ('K31', C, "        [\n            random_angle(self.from[0], self.to[0]),\n            random_angle(self.from[1], self.to[1]),\n            random_angle(self.from[2], self.to[2]),\n            random_angle(self.from[3], self.to[3]),\n            random_angle(self.from[4], self.to[4]),\n            random_angle(self.from[5], self.to[5]),\n        ]",
     "        let mut out = [0.0; 6];\n        for i in 0..6 {\n            out[i] = random_angle(self.from[i], self.to[i]);\n        }\n        out",
     ['C18'], 'sampler array filled in a loop'),
    ('K32', C, "                from + rng.gen_range(0.0..(to - from))", "                rng.gen_range(from..to)", ['C18'], 'direct range drawn in one call'),
    ('K33', Y, "        value.as_f64()\n            .or_else(|| value.as_i64().map(|v| v as f64))\n            .ok_or_else(|| ParameterError::MissingField(name.into()))",
     "        if let Some(real) = value.as_f64() {\n            return Ok(real);\n        }\n        match value.as_i64() {\n            Some(v) => Ok(v as f64),\n            None => Err(ParameterError::MissingField(name.into())),\n        }",
     ['C19'], 'number reader with early return and match'),
    ('K34', Y, "        let dof = doc[\"dof\"].as_i64().or_else(|| params[\"dof\"].as_i64()).unwrap_or(6) as i8;",
     "        let dof = match doc[\"dof\"].as_i64() {\n            Some(d) => d,\n            None => params[\"dof\"].as_i64().unwrap_or(6),\n        } as i8;",
     ['C19'], 'dof lookup as a match'),
    ('K35', Y, "        if let Some(angle) = s.strip_prefix(\"deg(\")\n            .and_then(|s| s.strip_suffix(\")\")) {",
     "        let inner = s.strip_prefix(\"deg(\").and_then(|s| s.strip_suffix(\")\"));\n        if let Some(angle) = inner {",
     ['C19'], 'deg() stripping held in a local'),
    ('K36', Y, "        if offsets.len() == 5 {\n            offsets.push(0.0); // Add 0 as the 6th element\n        }",
     "        if offsets.len() == 5 {\n            offsets.resize(6, 0.0);\n        }",
     ['C19'], 'offset padding with resize'),
    ('K37', K, "        (pose_translation.vector - check_xyz.vector).norm() <= tolerance", "        (check_xyz.vector - pose_translation.vector).norm() <= tolerance", ['C06'], 'symmetric distance operands swapped'),
    ('K38', K, "            if valid {\n                let check_pose = self.forward(&sols[si]);\n                if compare_poses(&pose, &check_pose, DISTANCE_TOLERANCE, ANGULAR_TOLERANCE) {\n                    result.push(sols[si]);\n                } else {\n                    if DEBUG {\n                        println!(\"********** Pose Failure sol {} *********\", si);\n                    }\n                }\n            }",
     "            if !valid {\n                continue;\n            }\n            let check_pose = self.forward(&sols[si]);\n            if compare_poses(&pose, &check_pose, DISTANCE_TOLERANCE, ANGULAR_TOLERANCE) {\n                result.push(sols[si]);\n            }",
     ['C01', 'C02', 'C05'], 'verification gate with continue'),
    ('K39', K, "            if valid {\n                let check_xyz = self.forward(&sols[si]).translation;\n                if Self::compare_xyz_only(&pose.translation, &check_xyz, DISTANCE_TOLERANCE) {\n                    result.push(sols[si]);\n                } else {\n                    if DEBUG {\n                        println!(\"********** Pose Failure 5DOF sol {} *********\", si);\n                    }\n                }\n            }",
     "            if valid {\n                let candidate = sols[si];\n                let check_xyz = self.forward(&candidate).translation;\n                if Self::compare_xyz_only(&pose.translation, &check_xyz, DISTANCE_TOLERANCE) {\n                    result.push(candidate);\n                }\n            }",
     ['C06'], '5-DOF candidate held in a local'),
    ('K40', RT, "        match extend_status {\n            ExtendStatus::Trapped => {}\n            ExtendStatus::Advanced(new_index) | ExtendStatus::Reached(new_index) => {\n                let q_new = &tree_a.vertices[new_index].data;\n                if let ExtendStatus::Reached(reach_index) =\n                    tree_b.connect(q_new, extend_length, &mut is_free)\n                {\n                    let mut a_all = tree_a.get_until_root(new_index);\n                    let mut b_all = tree_b.get_until_root(reach_index);\n                    a_all.reverse();\n                    a_all.append(&mut b_all);\n                    if tree_b.name == \"start\" {\n                        a_all.reverse();\n                    }\n                    return Ok(a_all);\n                }\n            }\n        }",
     "        if let ExtendStatus::Advanced(new_index) | ExtendStatus::Reached(new_index) = extend_status {\n            let q_new = &tree_a.vertices[new_index].data;\n            let connected = tree_b.connect(q_new, extend_length, &mut is_free);\n            if let ExtendStatus::Reached(reach_index) = connected {\n                let mut a_all = tree_a.get_until_root(new_index);\n                let mut b_all = tree_b.get_until_root(reach_index);\n                a_all.reverse();\n                a_all.append(&mut b_all);\n                if tree_b.name == \"start\" {\n                    a_all.reverse();\n                }\n                return Ok(a_all);\n            }\n        }",
     ['C13'], 'match on the extend status written as if-let'),
    ('K41', R, "            let joints = &<Joints>::try_from(joint_angles).expect(\"Cannot convert vector to array\");\n            !kinematics.collides(joints)",
     "            let joints = &<Joints>::try_from(joint_angles).expect(\"Cannot convert vector to array\");\n            let colliding = kinematics.collides(joints);\n            !colliding",
     ['C13'], 'collision verdict held in a local'),
    ('K42', CA, "        if trace.par_iter().any(|step| self.robot.collides(&step.joints)) {\n            return Err(\"Collision detected\".into());\n        }",
     "        let colliding = trace.par_iter().any(|step| self.robot.collides(&step.joints));\n        if colliding {\n            return Err(\"Collision detected\".into());\n        }",
     ['C12'], 'sweep verdict held in a local'),
    ('K43', CA, "                        let flags = if p < extension.len() - 1 {", "                        let flags = if p + 1 < extension.len() {", ['C12'], 'last-element test without subtraction'),
    ('K44', F, "    let dist_a1_a2 = (a1 - a2).norm();\n    let dist_a1_a3 = (a1 - a3).norm();\n    let dist_a2_a3 = (a2 - a3).norm();",
     "    let dist_a1_a2 = (a2 - a1).norm();\n    let dist_a1_a3 = (a3 - a1).norm();\n    let dist_a2_a3 = (a3 - a2).norm();",
     ['C17'], 'distance operands swapped'),
    ('K45', F, "        let rotation_matrix = nalgebra::Matrix3::from_columns(&[\n            d1, d2, d3,\n        ]) * nalgebra::Matrix3::from_columns(&[\n            b1, b2, b3,\n        ]).transpose();",
     "        let destination = nalgebra::Matrix3::from_columns(&[d1, d2, d3]);\n        let source = nalgebra::Matrix3::from_columns(&[b1, b2, b3]);\n        let rotation_matrix = destination * source.transpose();",
     ['C17'], 'basis matrices held in locals'),
    ('K46', P, "        solutions.iter_mut().for_each(|x| x[self.coupled] += \n            self.scaling * x[self.driven]); \n        solutions\n    }\n\n    fn inverse_5dof",
     "        solutions.iter_mut().for_each(|x| x[self.coupled] = x[self.coupled] + x[self.driven] * self.scaling);\n        solutions\n    }\n\n    fn inverse_5dof",
     ['C16'], '+= expanded and factors commuted in inverse'),
    ('K47', K, "        let theta4_v = theta4_i + PI;\n        let theta4_vi = theta4_ii + PI;\n        let theta4_vii = theta4_iii + PI;\n        let theta4_viii = theta4_iv + PI;\n\n        let theta6_v",
     "        let theta4_v = PI + theta4_i;\n        let theta4_vi = PI + theta4_ii;\n        let theta4_vii = PI + theta4_iii;\n        let theta4_viii = PI + theta4_iv;\n\n        let theta6_v",
     ['C02'], 'sum commuted'),
]

KEEP += [
    ('K48', None, [(PY, "            format!(\n                \"opw_kinematics_geometric_parameters:", "            let signs = if self.sign_corrections[5] == 0 { 5 } else { 6 };\n            format!(\n                \"opw_kinematics_geometric_parameters:", False),
                   (PY, "                self.sign_corrections.iter().map(|x| x.to_string())", "                self.sign_corrections[..signs].iter().map(|x| x.to_string())", False)],
     None, ['C19'], 'blocked J6 written in the five-entry form that the reader pads back with 0'),
]
MUTANTS.append(('M78', PY, "                self.sign_corrections.iter().map(|x| x.to_string())", "                self.sign_corrections.iter().take(5).map(|x| x.to_string())", 'C19', 'R19.1', 'the sixth sign correction is never written'))

# ---- fourth batch: URDF, forward kinematics, collisions, constraints
KEEP += [
    ('K49', U, "        if let Some(existing) = map.get(&joint.name) {\n            // Check if the existing entry is different from the new one\n            if existing != &joint {\n                return Err(Box::new(std::io::Error::new(std::io::ErrorKind::InvalidData,\n                                                        format!(\"Duplicate joint name with different data found: {}\", joint.name))));\n            }\n        } else {\n            map.insert(joint.name.clone(), joint);\n        }",
     "        match map.get(&joint.name) {\n            Some(existing) if existing != &joint => {\n                return Err(Box::new(std::io::Error::new(std::io::ErrorKind::InvalidData,\n                                                        format!(\"Duplicate joint name with different data found: {}\", joint.name))));\n            }\n            Some(_) => {}\n            None => {\n                map.insert(joint.name.clone(), joint);\n            }\n        }",
     ['C20'], 'duplicate test as a guarded match'),
    ('K50', U, "    let lower_attr = element.attribute(\"lower\")\n        .ok_or_else(|| ParameterError::MissingField(\"lower limit not found\".into()))?\n        .value();\n    let lower_limit = parse_angle(lower_attr)?;\n\n    let upper_attr = element.attribute(\"upper\")\n        .ok_or_else(|| ParameterError::MissingField(\"upper limit not found\".into()))?\n        .value();\n    let upper_limit = parse_angle(upper_attr)?;\n",
     "    let upper_attr = element.attribute(\"upper\")\n        .ok_or_else(|| ParameterError::MissingField(\"upper limit not found\".into()))?\n        .value();\n    let lower_attr = element.attribute(\"lower\")\n        .ok_or_else(|| ParameterError::MissingField(\"lower limit not found\".into()))?\n        .value();\n    let upper_limit = parse_angle(upper_attr)?;\n    let lower_limit = parse_angle(lower_attr)?;\n",
     ['C20'], 'limits read in the other order'),
    ('K51', U, "    if let Some(caps) = re.captures(attr_value) {\n        let degrees_str = caps.get(1)\n            .ok_or(ParameterError::WrongAngle(format!(\"Bad representation: {}\",\n                                                      attr_value).to_string()))?.as_str();\n        let degrees: f64 = degrees_str.parse()\n            .map_err(|_| ParameterError::WrongAngle(attr_value.to_string()))?;\n        Ok(degrees.to_radians())\n    } else {\n        // Try to parse the input as a plain number in that case it is in radians\n        let radians: f64 = attr_value.parse()\n            .map_err(|_| ParameterError::WrongAngle(attr_value.to_string()))?;\n        Ok(radians)\n    }",
     "    let caps = match re.captures(attr_value) {\n        Some(caps) => caps,\n        None => {\n            let radians: f64 = attr_value.parse()\n                .map_err(|_| ParameterError::WrongAngle(attr_value.to_string()))?;\n            return Ok(radians);\n        }\n    };\n    let degrees_str = caps.get(1)\n        .ok_or(ParameterError::WrongAngle(format!(\"Bad representation: {}\",\n                                                  attr_value).to_string()))?.as_str();\n    let degrees: f64 = degrees_str.parse()\n        .map_err(|_| ParameterError::WrongAngle(attr_value.to_string()))?;\n    Ok(degrees.to_radians())",
     ['C20'], 'plain-number path as an early return'),
    ('K52', K, "        let translation = Vector3::new(cx0, cy0, cz0) + p.c4 * r_oe * *self.unit_z;", "        let approach = r_oe * *self.unit_z;\n        let translation = Vector3::new(cx0, cy0, cz0) + approach * p.c4;", ['C03'], 'approach vector held in a local, scalar on the right'),
    ('K53', K, "        let (s1, c1) = q1.sin_cos();\n        let (s2, c2) = q2.sin_cos();", "        let (s1, c1) = (q1.sin(), q1.cos());\n        let (s2, c2) = (f64::sin(q2), f64::cos(q2));", ['C03'], 'sin_cos split into sin and cos'),
    ('K54', K, "        let pose2 = pose1 * Isometry3::from_parts(\n            Translation3::new(p.a1, p.b, 0.0),\n            UnitQuaternion::from_axis_angle(&nalgebra::Vector3::y_axis(), q2),\n        );",
     "        let shoulder = Isometry3::from_parts(\n            Translation3::new(p.a1, p.b, 0.0),\n            UnitQuaternion::from_axis_angle(&nalgebra::Vector3::y_axis(), q2),\n        );\n        let pose2 = pose1 * shoulder;",
     ['C03'], 'link transform held in a local'),
    ('K55', CO, "        if collides {\n            Some((self.i.min(self.j), self.i.max(self.j)))\n        } else {\n            None\n        }",
     "        if !collides {\n            return None;\n        }\n        Some((self.i.min(self.j), self.i.max(self.j)))",
     ['C10'], 'pair result with early return'),
    ('K56', CO, "        !self\n            .detect_collisions_with_skips(&joint_poses_f32, &safety, &override_mode, &empty_set)\n            .is_empty()",
     "        let hits = self.detect_collisions_with_skips(&joint_poses_f32, &safety, &override_mode, &empty_set);\n        hits.len() > 0",
     ['C10', 'C11'], 'verdict as len() > 0'),
    ('K57', CO, "        if mode == CheckMode::NoCheck {\n            Vec::new()\n        } else if mode == CheckMode::FirstCollisionOnly {",
     "        if mode == CheckMode::NoCheck {\n            return Vec::new();\n        }\n        if mode == CheckMode::FirstCollisionOnly {",
     ['C10'], 'mode dispatch with early return'),
    ('K58', C, "            if a == b {\n                tolerances[j_idx] = INFINITY; // No constraint, not checked\n            } else if a < b {\n                // Values do not wrap arround\n                centers[j_idx] = (a + b) / 2.0;\n                tolerances[j_idx] = (b - a) / 2.0;\n            } else {",
     "            if a == b {\n                tolerances[j_idx] = INFINITY; // No constraint, not checked\n            } else if a < b {\n                // Values do not wrap arround\n                centers[j_idx] = 0.5 * (a + b);\n                tolerances[j_idx] = 0.5 * (b - a);\n            } else {",
     ['C07', 'C18'], 'halving as multiplication'),
    ('K59', C, "            } else if a < b {\n                // Values do not wrap arround\n                centers[j_idx] = (a + b) / 2.0;\n                tolerances[j_idx] = (b - a) / 2.0;\n            } else {", "            } else {",
     ['C07', 'C18'], 'non-wrapping branch merged into the general one (the loop does not run for a < b)'),
    ('K60', C, "        let (centers, tolerances) = Self::compute_centers(from, to);\n\n        Constraints {\n            from,\n            to,\n            centers,\n            tolerances,\n            sorting_weight,\n        }",
     "        Self::new(from, to, sorting_weight)", ['C07'], 'from_degrees delegates to new'),
    ('K61', C, "        let mut difference = (angle1 - angle2).abs();\n        difference = difference % TWO_PI;\n        if difference > PI {\n            difference = TWO_PI - difference;\n        }\n        difference <= tolerance",
     "        let raw = (angle1 - angle2).abs() % TWO_PI;\n        let difference = if raw > PI { TWO_PI - raw } else { raw };\n        difference <= tolerance",
     ['C07', 'C08', 'C18'], 'arc distance with immutable locals'),
]

# ---- fifth batch: offsets search, continuation, singularity helpers, constraint glue
KEEP += [
    ('K62', CO, "                if self\n                    .detect_collisions_with_skips(\n                        &joint_poses_f32,\n                        &self.safety,\n                        &Some(CheckMode::FirstCollisionOnly),\n                        &skip_indices,\n                    )\n                    .is_empty()\n                {",
     "                let hits = self.detect_collisions_with_skips(\n                    &joint_poses_f32,\n                    &self.safety,\n                    &Some(CheckMode::FirstCollisionOnly),\n                    &skip_indices,\n                );\n                if hits.len() == 0 {",
     ['C14'], 'empty report tested as len() == 0'),
    ('K63', CO, "                    .is_empty()\n                {\n                    return Some(new_joints); // Return non-colliding configuration\n                } else {\n                    return None;\n                }",
     "                    .is_empty()\n                    == false\n                {\n                    return None;\n                }\n                Some(new_joints)",
     ['C14'], 'colliding candidate rejected by early return'),
    ('K64', K, "            if solutions.is_empty() {\n                // Unshifted version that comes first is always included into results\n                solutions.extend(&ik);\n            }",
     "            if solutions.len() == 0 {\n                solutions.extend(&ik);\n            }", ['C04', 'C05', 'C01'], 'emptiness as len() == 0'),
    ('K65', K, "    joint1.iter()\n        .zip(joint2.iter())\n        .map(|(a, b)| (a - b).abs())\n        .sum()", "    let mut sum = 0.0;\n    for i in 0..6 {\n        sum += (joint1[i] - joint2[i]).abs();\n    }\n    sum", ['C04'], 'joint distance as a loop'),
    ('K66', K, "            solutions.sort_by(|a, b| {\n                let distance_a = calculate_distance(a, previous);\n                let distance_b = calculate_distance(b, previous);\n                distance_a.partial_cmp(&distance_b).unwrap_or(std::cmp::Ordering::Equal)\n            });",
     "            solutions.sort_by(|a, b| {\n                calculate_distance(a, previous)\n                    .partial_cmp(&calculate_distance(b, previous))\n                    .unwrap_or(std::cmp::Ordering::Equal)\n            });", ['C04'], 'comparator temporaries inlined'),
    ('K67', K, "    let two_pi = 2.0 * PI;\n\n    fn adjust(", "    let two_pi = std::f64::consts::TAU;\n\n    fn adjust(", ['C04', 'C01'], 'period as TAU'),
    ('K68', K, "    while diff > PI {\n        diff = (2.0 * PI) - diff;\n    }\n    diff < SINGULARITY_ANGLE_THR", "    if diff > PI {\n        diff = (2.0 * PI) - diff;\n    }\n    diff < SINGULARITY_ANGLE_THR", ['C05'], 'single fold suffices after the modulo'),
    ('K69', K, "    let normalized_angle = joint_value.rem_euclid(2.0 * PI);\n    // Check if the normalized angle is close to 0 or PI\n    normalized_angle < threshold ||\n        (2.0 * PI - normalized_angle) < threshold ||\n        (PI - normalized_angle).abs() < threshold",
     "    let two_pi = 2.0 * PI;\n    let n = joint_value.rem_euclid(two_pi);\n    if n < threshold {\n        return true;\n    }\n    if two_pi - n < threshold {\n        return true;\n    }\n    (PI - n).abs() < threshold", ['C05'], 'singularity test as early returns'),
    ('K70', K, "                        let j_d = angle / 2.0;", "                        let j_d = 0.5 * angle;", ['C05'], 'halving as multiplication'),
    ('K71', K, "        if self.parameters.dof == 5 {\n            // For 5 DOF robot, we can only do 5 DOF approximate inverse. J6 is set to 0.\n            self.inverse_5dof(pose, 0.0)\n        } else {\n            self.filter_constraints_compliant(self.inverse_intern(&pose))\n        }",
     "        if self.parameters.dof == 5 {\n            return self.inverse_5dof(pose, 0.0);\n        }\n        let all = self.inverse_intern(&pose);\n        self.filter_constraints_compliant(all)", ['C01', 'C02', 'C06', 'C08'], 'inverse with early return'),
    ('K72', K, "        match &self.constraints {\n            Some(constraints) => constraints.filter(&solutions),\n            None => solutions\n        }", "        if let Some(constraints) = &self.constraints {\n            constraints.filter(&solutions)\n        } else {\n            solutions\n        }", ['C08', 'C01'], 'match as if-let'),
    ('K73', K, "        match &self.constraints {\n            Some(constraints) => constraints.compliant(&solution),\n            None => true\n        }", "        self.constraints.as_ref().map_or(true, |c| c.compliant(&solution))", ['C08', 'C05'], 'match as map_or'),
]

MUTANTS.append(('M79', K, "                        while angle > PI {\n                            angle -= 2.0 * PI;\n                        }\n                        while angle < -PI {\n                            angle += 2.0 * PI;\n                        }\n                        let j_d", "                        if angle > PI {\n                            angle -= 2.0 * PI;\n                        }\n                        if angle < -PI {\n                            angle += 2.0 * PI;\n                        }\n                        let j_d", 'C05', 'R05.5', 'sum difference reduced by at most one turn (wound-up wrist jumps by pi)'))
KEEP += [
    ('K74', K, "                        let mut angle = s_n - s;\n                        while angle > PI {\n                            angle -= 2.0 * PI;\n                        }\n                        while angle < -PI {\n                            angle += 2.0 * PI;\n                        }\n                        let j_d", "                        let angle = (s_n - s + PI).rem_euclid(2.0 * PI) - PI;\n                        let j_d", ['C05'], 'sum difference reduced in closed form'),
    ('K75', K, "                        while angle > PI {\n                            angle -= 2.0 * PI;\n                        }\n                        while angle < -PI {\n                            angle += 2.0 * PI;\n                        }\n                        let j_d", "                        loop {\n                            if angle > PI {\n                                angle -= 2.0 * PI;\n                                continue;\n                            }\n                            if angle < -PI {\n                                angle += 2.0 * PI;\n                                continue;\n                            }\n                            break;\n                        }\n                        let j_d", ['C05'], 'two reduction loops merged into one'),
]

KEEP += [
    ('K76', None, [(CO, "                let skip_indices: HashSet<usize> = (0..joint_index).collect();", "                let skip_indices: HashSet<usize> = (0..joint_index).chain([J_BASE]).collect();", False),
                   (CO, "        if skip.len() >= 6 {\n            panic!(\n                \"At most 5 joints can be skipped, but {} were passed: {:?}\",\n                skip.len(),", "        let skipped_joints = skip.iter().filter(|&&k| k <= J6).count();\n        if skipped_joints >= 6 {\n            panic!(\n                \"At most 5 joints can be skipped, but {} were passed: {:?}\",\n                skipped_joints,", False),
                   (CO, "        let joint_env_tasks = (6 - skip.len()) * self.collision_environment.len();", "        let joint_env_tasks = (6 - skipped_joints) * self.collision_environment.len();", False)],
     None, ['C14', 'C10'], 'the never-moving base named in the skip set (check_required already treats it as unmoved)'),
    ('K77', CO, "            for j in ((i + 1)..6).rev() {\n                // If both joints did not move, we do not need to check\n                if j - i > 1 && self.check_required", "            for j in ((i + 2).max(skip.len())..6).rev() {\n                if self.check_required", ['C14', 'C10'], 'link pairs below the first moved joint not enumerated (skip is a prefix 0..k)'),
]

MUTANTS.append(('M80', RT, "                    tree_b.connect(q_new, extend_length, &mut is_free)", "                    tree_b.connect(q_new, extend_length, &mut |_q: &[N]| true)", 'C13', 'R13.6', 'the connecting tree grows without the collision predicate'))
KEEP += [
    ('K78', RT, "            match self.extend(q_target, extend_length, is_free) {", "            let mut is_free_or_target = |q: &[N]| q == q_target || is_free(q);\n            match self.extend(q_target, extend_length, &mut is_free_or_target) {", ['C13'], 'connect admits its target unchecked; every connect target is a vertex of the other tree'),
    ('K79', RT, "        let extend_status = tree_a.extend(&q_rand, extend_length, &mut is_free);", "        let extend_status = tree_a.connect(&q_rand, extend_length, &mut is_free);", ['C13'], 'greedy growth towards the sample (every node still checked)'),
]

# ---- sixth batch: jacobian, parallelogram, tool/base, shape wrapper
KEEP += [
    ('K80', J, "        let joint_torques = self.matrix.transpose() * desired_force_torgue_vector;\n        vector6_to_joints(joint_torques)", "        self.torques_from_vector(&desired_force_torgue_vector)", ['C15'], 'torques delegates to torques_from_vector'),
    ('K81', J, "        let joint_velocities: Vector6<f64>;\n        if let Some(jacobian_inverse) = self.matrix.try_inverse() {\n            joint_velocities = jacobian_inverse * X;\n        } else {", "        let joint_velocities: Vector6<f64>;\n        let inverse = self.matrix.try_inverse();\n        if let Some(jacobian_inverse) = inverse {\n            joint_velocities = jacobian_inverse * X;\n        } else {", ['C15'], 'inverse held in a local'),
    ('K82', J, "        let delta_orientation = (perturbed_orientation * current_orientation.inverse()).scaled_axis() / epsilon;", "        let relative = perturbed_orientation * current_orientation.inverse();\n        let delta_orientation = relative.scaled_axis() / epsilon;", ['C15'], 'relative rotation held in a local'),
    ('K83', J, "    let jacobian_columns: Vec<_> = (0..6).into_iter().map(|i| {", "    let jacobian_columns: Vec<_> = (0..6).map(|i| {", ['C15'], 'redundant into_iter dropped'),
    ('K84', P, "    fn forward_with_joint_poses(&self, joints: &Joints) -> [Pose; 6] {\n        let mut joints = *joints; \n        // Adjusting coupled joint based on driven joint in forward kinematics\n        joints[self.coupled] -= self.scaling * joints[self.driven]; \n        self.robot.forward_with_joint_poses(&joints)", "    fn forward_with_joint_poses(&self, joints: &Joints) -> [Pose; 6] {\n        let mut inner = *joints;\n        let shift = self.scaling * joints[self.driven];\n        inner[self.coupled] = joints[self.coupled] - shift;\n        self.robot.forward_with_joint_poses(&inner)", ['C16'], 'pre-map with a named shift'),
    ('K85', P, "    fn inverse_5dof(&self, tcp: &Pose, j6: f64) -> Solutions {\n        let mut solutions = self.robot.inverse_5dof(tcp, j6);\n\n        // Reversing the influence of driven joint in inverse kinematics        \n        solutions.iter_mut().for_each(|x| x[self.coupled] += \n            self.scaling * x[self.driven]); \n        solutions", "    fn inverse_5dof(&self, tcp: &Pose, j6: f64) -> Solutions {\n        let mut solutions = self.robot.inverse_5dof(tcp, j6);\n        for i in 0..solutions.len() {\n            solutions[i][self.coupled] += self.scaling * solutions[i][self.driven];\n        }\n        solutions", ['C16', 'C08'], 'post-map as an index loop'),
    ('K86', T, "        self.base * self.robot.forward(joints)\n    }", "        let flange = self.robot.forward(joints);\n        self.base * flange\n    }", ['C09'], 'inner pose held in a local'),
    ('K87', T, "        let mut poses = self.robot.forward_with_joint_poses(joints);\n\n        // Apply the base transformation to each pose\n        for pose in poses.iter_mut() {\n            *pose = self.base * *pose;\n        }\n\n        poses", "        self.robot.forward_with_joint_poses(joints).map(|pose| self.base * pose)", ['C09'], 'link poses mapped with array::map'),
    ('K88', T, "    fn inverse_5dof(&self, tcp: &Pose, j6: f64) -> Solutions {\n        self.robot.inverse_5dof(&(tcp * self.tool.inverse()), j6)", "    fn inverse_5dof(&self, tcp: &Pose, j6: f64) -> Solutions {\n        let flange: Pose = tcp * self.tool.inverse();\n        self.robot.inverse_5dof(&flange, j6)", ['C09', 'C06'], 'flange pose held in a typed local'),
    ('K89', W, "    fn inverse(&self, pose: &Pose) -> Solutions {\n        let solutions = self.kinematics.inverse(pose);\n        self.remove_collisions(solutions)", "    fn inverse(&self, pose: &Pose) -> Solutions {\n        self.remove_collisions(self.kinematics.inverse(pose))", ['C11', 'C08'], 'temporaries inlined in the shape wrapper'),
    ('K90', W, "        let robot_with_base = Base {\n            robot: Arc::new(plain_robot),\n            base: base_transform.clone(),\n        };\n\n        let robot_with_base_and_tool = Tool {\n            robot: Arc::new(robot_with_base),\n            tool: tool_transform.clone(),\n        };\n\n        robot_with_base_and_tool", "        Tool {\n            robot: Arc::new(Base {\n                robot: Arc::new(plain_robot),\n                base: base_transform,\n            }),\n            tool: tool_transform,\n        }", ['C11'], 'stack built as one expression'),
]

KEEP += [
    ('K91', None, [(K, 'filter_constraints_compliant', 'only_compliant', True), (K, 'constraints_compliant', 'is_within_limits', True), (K, 'compare_poses', 'poses_match', True),
                   (K, 'normalize_near', 'wrap_near', True), (K, 'calculate_distance', 'joint_distance', True), (K, 'are_angles_close', 'angles_close', True),
                   (K, 'is_close_to_multiple_of_pi', 'near_multiple_of_pi', True), (K, 'sort_by_closeness', 'order_by_closeness', True),
                   (K, 'inverse_intern_5_dof', 'solve_all_five', True), (K, 'inverse_intern', 'solve_all', True), (K, 'compare_xyz_only', 'positions_match', True),
                   (C, 'compute_centers', 'centres_of', True), (C, 'inside_bounds', 'within_arc', True),
                   (CO, 'check_required', 'needs_check', True), (CO, 'count_tasks', 'task_count', True), (CO, 'process_collision_tasks', 'run_tasks', True),
                   (CO, 'detect_collisions_with_skips', 'detect_with_skips', True),
                   (W, 'remove_collisions', 'drop_colliding', True),
                   (CA, 'step_adaptive_linear_transition', 'bridge', True), (CA, 'probe_strategy', 'try_strategy', True), (CA, 'with_intermediate_poses', 'all_poses', True)],
     None, ['C01', 'C02', 'C04', 'C05', 'C06', 'C07', 'C08', 'C10', 'C11', 'C12', 'C14', 'C18'], 'twenty-one private helpers renamed'),
]

KEEP += [
    ('K92', None, [(RT, 'add_vertex', 'insert_node', True), (RT, 'get_until_root', 'ancestors', True), (RT, 'add_edge', 'link', True), (RT, 'get_nearest_index', 'nearest', True),
                   (RT, 'fn extend<', 'fn grow<', False), (RT, 'self.extend(', 'self.grow(', True), (RT, 'tree_a.extend(', 'tree_a.grow(', True),
                   (RT, 'fn connect<', 'fn grow_until<', False), (RT, 'tree_b.connect(', 'tree_b.grow_until(', True),
                   (CO, "    fn collides(&self, safety: &SafetyDistances) -> Option<(u16, u16)> {", "    fn verdict(&self, safety: &SafetyDistances) -> Option<(u16, u16)> {", False),
                   (CO, 'task.collides(&safety)', 'task.verdict(&safety)', True),
                   (W, 'create_robot_with_base_and_tool', 'build_stack', True),
                   (CA, 'fn interpolate(', 'fn blend(', False), (CA, 'from.interpolate(to, DIV_RATIO)', 'from.blend(to, DIV_RATIO)', False)],
     None, ['C13', 'C10', 'C14', 'C11', 'C12'], 'private methods of the RRT tree, the collision task, the stack builder and the pose interpolation renamed'),
]

import json as _json, os as _os
_k93 = _json.load(open(_os.path.join(_os.path.dirname(__file__), 'keep', 'K93_params_renamed.json')))
KEEP += [
    ('K93', None, [(f, old, new, False) for f, old, new in _k93], None, ['C14', 'C10', 'C15', 'C12'],
     'parameters and locals renamed in non_colliding_offsets, compute_jacobian, the pose-list builder and the interpolating helper'),
]

_k94 = _json.load(open(_os.path.join(_os.path.dirname(__file__), 'keep', 'K94_params_renamed.json')))
KEEP += [
    ('K94', None, [(f, old, new, False) for f, old, new in _k94], None, ['C13', 'C12'],
     'parameters and locals renamed in the RRT planner glue and the bisection'),
]

ALL_MAIN = [C, K, CO, T, F, P, J, W, CA, R, RT, Y, PY, U]
KEEP += [
    ('K95', 'GEN', 'rename_locals', ALL_MAIN, ['C%02d' % i for i in range(1, 21)],
     'every parameter and local variable of every non-test function in fourteen source files renamed (generated by tools/rename_locals.py)'),
]

_WRAP_FN = "\n/// Brings an angle into [-PI, PI] by whole turns\nfn wrap_pi(mut angle: f64) -> f64 {\n    while angle > PI {\n        angle -= 2.0 * PI;\n    }\n    while angle < -PI {\n        angle += 2.0 * PI;\n    }\n    angle\n}\n\nfn calculate_distance("
KEEP += [
    ('K96', None, [(K, "                        let mut angle = s_n - s;\n                        while angle > PI {\n                            angle -= 2.0 * PI;\n                        }\n                        while angle < -PI {\n                            angle += 2.0 * PI;\n                        }\n                        let j_d", "                        let angle = wrap_pi(s_n - s);\n                        let j_d", False),
                   (K, "                let mut angle = sols[si][ji];\n                if angle.is_finite() {\n                    while angle > PI {\n                        angle -= 2.0 * PI;\n                    }\n                    while angle < -PI {\n                        angle += 2.0 * PI;\n                    }\n                    sols[si][ji] = angle;\n                } else {", "                let angle = sols[si][ji];\n                if angle.is_finite() {\n                    sols[si][ji] = wrap_pi(angle);\n                } else {", True),
                   (K, "\nfn calculate_distance(", _WRAP_FN, False)],
     None, ['C01', 'C02', 'C05', 'C06', 'C04'], 'the three copies of the reduction loops extracted into one helper'),
]

KEEP += [
    ('K97', K, "            self.filter_constraints_compliant(self.inverse_intern(&pose))\n        }\n    }", "            let all = self.inverse_intern(&pose);\n            match &self.constraints {\n                Some(constraints) => constraints.filter(&all),\n                None => all,\n            }\n        }\n    }", ['C08', 'C01', 'C02'], 'limits filter inlined into inverse'),
    ('K98', None, [(K, "        let q1 = joints[0] * p.sign_corrections[0] as f64 - p.offsets[0];\n        let q2 = joints[1] * p.sign_corrections[1] as f64 - p.offsets[1];\n        let q3 = joints[2] * p.sign_corrections[2] as f64 - p.offsets[2];\n        let q4 = joints[3] * p.sign_corrections[3] as f64 - p.offsets[3];\n        let q5 = joints[4] * p.sign_corrections[4] as f64 - p.offsets[4];\n        let q6 = joints[5] * p.sign_corrections[5] as f64 - p.offsets[5];\n\n        let psi3",
                    "        let q1 = self.internal_angle(joints, 0);\n        let q2 = self.internal_angle(joints, 1);\n        let q3 = self.internal_angle(joints, 2);\n        let q4 = self.internal_angle(joints, 3);\n        let q5 = self.internal_angle(joints, 4);\n        let q6 = self.internal_angle(joints, 5);\n\n        let psi3", False),
                   (K, "    fn compare_xyz_only(", "    /// Joint value in the convention of the OPW paper\n    fn internal_angle(&self, joints: &Joints, i: usize) -> f64 {\n        joints[i] * self.parameters.sign_corrections[i] as f64 - self.parameters.offsets[i]\n    }\n\n    fn compare_xyz_only(", False)],
     None, ['C03', 'C01'], 'joint convention of forward() extracted into a method'),
    ('K99', None, [(C, "        let mut difference = (angle1 - angle2).abs();\n        difference = difference % TWO_PI;\n        if difference > PI {\n            difference = TWO_PI - difference;\n        }\n        difference <= tolerance\n    }", "        Self::circular_distance(angle1, angle2) <= tolerance\n    }\n\n    /// Distance of two angles on the circle, in [0, PI]\n    fn circular_distance(angle1: f64, angle2: f64) -> f64 {\n        let mut difference = (angle1 - angle2).abs();\n        difference = difference % TWO_PI;\n        if difference > PI {\n            difference = TWO_PI - difference;\n        }\n        difference\n    }", False)],
     None, ['C07', 'C08', 'C18'], 'circular distance extracted from the membership test'),
    ('K100', None, [(CO, "                    if self.check_required(J_TOOL, (ENV_START_IDX + env_idx) as usize, &skip, safety_distances) {\n                        tasks.push(CollisionTask {\n                            i: J_TOOL as u16,\n                            j: (ENV_START_IDX + env_idx) as u16,", "                    if self.check_required(J_TOOL, Self::env_id(env_idx), &skip, safety_distances) {\n                        tasks.push(CollisionTask {\n                            i: J_TOOL as u16,\n                            j: Self::env_id(env_idx) as u16,", False),
                    (CO, "    fn check_required(\n        &self,", "    /// Reporting index of the environment object number k\n    fn env_id(k: usize) -> usize {\n        ENV_START_IDX + k\n    }\n\n    fn check_required(\n        &self,", False)],
     None, ['C10', 'C14'], 'environment index computed by a small helper'),
]

KEEP += [
    ('K101', None, [(C, "    pub fn compliant(&self, angles: &[f64; 6]) -> bool {\n", "    pub fn compliant(&self, angles: &[f64; 6]) -> bool {\n        if cfg!(debug_assertions) && false {\n            println!(\"checking {:?} against {:?}..{:?}\", angles, self.from, self.to);\n        }\n", False),
                    (K, "        let mut result: Solutions = Vec::with_capacity(8);\n\n        // Debug check. Solution failing cross-verification is flagged\n        // as invalid. This loop also normalizes valid solutions to 0\n        for si in 0..sols.len() {\n            let mut valid = true;\n            for ji in 0..6 {", "        let mut result: Solutions = Vec::with_capacity(8);\n        if DEBUG {\n            println!(\"candidates: {:?}\", sols);\n        }\n\n        // Debug check. Solution failing cross-verification is flagged\n        // as invalid. This loop also normalizes valid solutions to 0\n        for si in 0..sols.len() {\n            let mut valid = true;\n            for ji in 0..6 {", False),
                    (T, "    fn forward(&self, joints: &Joints) -> Pose {\n        self.base * self.robot.forward(joints)", "    fn forward(&self, joints: &Joints) -> Pose {\n        // the base transform maps robot coordinates into world coordinates\n        self.base * self.robot.forward(joints)", False),
                    (RT, "        let q_rand = random_sample();\n", "        let q_rand = random_sample();\n        debug!(\"sample = {q_rand:?}\");\n", False)],
     None, ['C07', 'C08', 'C01', 'C02', 'C09', 'C13'], 'diagnostic output and comments added'),
    ('K102', None, [(C, "    pub sorting_weight: f64,\n}", "    pub sorting_weight: f64,\n\n    /// Incremented by update_range, lets callers notice changed limits\n    pub revision: u32,\n}", False),
                    (C, "            sorting_weight: sorting_weight,\n        }", "            sorting_weight: sorting_weight,\n            revision: 0,\n        }", False),
                    (C, "            tolerances,\n            sorting_weight,\n        }", "            tolerances,\n            sorting_weight,\n            revision: 0,\n        }", False),
                    (C, "        self.tolerances = tolerances;\n", "        self.tolerances = tolerances;\n        self.revision += 1;\n", False)],
     None, ['C07', 'C08', 'C18', 'C01', 'C04', 'C20'], 'a field added to Constraints'),
]

KEEP += [
    ('K104', None, [(Y, "        // Ensure length is either 5 or 6, and pad with 0 if necessary\n        if offsets.len() == 5 {\n            offsets.push(0.0); // Add 0 as the 6th element\n        }\n\n        if offsets.len() != 6 {\n            return Err(ParameterError::InvalidLength {\n                expected: 6,\n                found: offsets.len(),\n            });\n        }\n\n        let offsets: [f64; 6] = offsets.try_into().unwrap(); // Safe now, we ensured it's of length 6\n        Ok(offsets)", "        Self::six(offsets, 0.0)", False),
                     (Y, "        // Ensure length is either 5 or 6, and pad with 0 if necessary\n        if sign_corrections.len() == 5 {\n            sign_corrections.push(0); // Add 0 as the 6th element\n        }\n\n        if sign_corrections.len() != 6 {\n            return Err(ParameterError::InvalidLength {\n                expected: 6,\n                found: sign_corrections.len(),\n            });\n        }\n\n        let sign_corrections: [i8; 6] = sign_corrections.try_into().unwrap(); // Safe now, we ensured it's of length 6\n        Ok(sign_corrections)", "        Self::six(sign_corrections, 0)", False),
                     (Y, "    /// Parses angles from strings in degrees format or plain floats.", "    /// Five entries are padded to six, any other length but six is an error\n    fn six<T: Copy + std::fmt::Debug>(mut values: Vec<T>, fill: T) -> Result<[T; 6], ParameterError> {\n        if values.len() == 5 {\n            values.push(fill);\n        }\n        if values.len() != 6 {\n            return Err(ParameterError::InvalidLength {\n                expected: 6,\n                found: values.len(),\n            });\n        }\n        let array: [T; 6] = values.try_into().unwrap(); // length is 6 here\n        Ok(array)\n    }\n\n    /// Parses angles from strings in degrees format or plain floats.", False)],
     None, ['C19'], 'padding and length check of both array readers extracted into one generic helper'),
]

KEEP += [
    ('K105', None, [(P, "impl Kinematics for Parallelogram {", "impl Parallelogram {\n    /// Joint values as seen by the wrapped robot: the coupled joint is adjusted based on the driven joint\n    fn decoupled(&self, qs: &Joints) -> Joints {\n        let mut joints = *qs;\n        joints[self.coupled] -= self.scaling * joints[self.driven];\n        joints\n    }\n}\n\nimpl Kinematics for Parallelogram {", False),
                    (P, "        let mut joints = *qs;\n        // Adjusting coupled joint based on driven joint in forward kinematics\n        joints[self.coupled] -= self.scaling * joints[self.driven]; \n        self.robot.forward(&joints)", "        self.robot.forward(&self.decoupled(qs))", False),
                    (P, "        let mut joints = *joints; \n        // Adjusting coupled joint based on driven joint in forward kinematics\n        joints[self.coupled] -= self.scaling * joints[self.driven]; \n        self.robot.forward_with_joint_poses(&joints)", "        self.robot.forward_with_joint_poses(&self.decoupled(joints))", False)],
     None, ['C16'], 'the forward pre-map of both forward methods extracted into one helper'),
]

KT = 'src/kinematic_traits.rs'
MUTANTS += [
    ('M81', C, "const TWO_PI: f64 = 2.0 * PI;", "const TWO_PI: f64 = 6.2831;", 'C07', None, 'TWO_PI truncated to four decimals in the membership test'),
    ('M82', K, "const SINGULARITY_ANGLE_THR: f64 = 0.01 * PI / 180.0;", "const SINGULARITY_ANGLE_THR: f64 = 0.01;", 'C05', None, 'singularity band 0.01 rad instead of 0.01 degrees'),
    ('M83', KT, "pub const ENV_START_IDX: usize = 1000;", "pub const ENV_START_IDX: usize = 100;", 'C10', None, 'environment indices start at the tool index'),
    ('M85', CO, "pub const TOUCH_ONLY: f32 = 0.0;", "pub const TOUCH_ONLY: f32 = 0.001;", 'C10', None, 'touch-only distance 1 mm'),
    ('M86', K, "const ANGULAR_TOLERANCE: f64 = 1E-6;", "const ANGULAR_TOLERANCE: f64 = 1E-5;", 'C01', None, 'angular tolerance 10 microradians'),
]

_KWS_NEW_OLD = "        KinematicsWithShape {\n            kinematics: Arc::new(Self::create_robot_with_base_and_tool(\n                base_transform,\n                tool_transform,\n                opw_parameters,\n                constraints,\n            )),\n            body: RobotBody {\n                joint_meshes,\n                base: Some(BaseBody {\n                    mesh: base_mesh,\n                    base_pose: base_transform.cast(),\n                }),\n                tool: Some(tool_mesh),\n                collision_environment,\n                safety: SafetyDistances::standard(\n                    if first_collision_only {\n                        CheckMode::FirstCollisionOnly\n                    } else {\n                        CheckMode::AllCollsions\n                    }),\n            },\n        }\n    }"
_KWS_NEW_DELEG = "        Self::with_safety(\n            opw_parameters,\n            constraints,\n            joint_meshes,\n            base_mesh,\n            base_transform,\n            tool_mesh,\n            tool_transform,\n            collision_environment,\n            SafetyDistances::standard(if first_collision_only {\n                CheckMode::FirstCollisionOnly\n            } else {\n                CheckMode::AllCollsions\n            }),\n        )\n    }"
KEEP += [
    ('K106', W, _KWS_NEW_OLD, _KWS_NEW_DELEG, ['C11', 'C09'], 'KinematicsWithShape::new delegates to with_safety, arguments in order'),
]

UT = 'src/utils/utils.rs'
_TC_OLD = "    [(from[0] - to[0]).abs() * coefficients[0]\n        + (from[1] - to[1]).abs() * coefficients[1]\n        + (from[2] - to[2]).abs() * coefficients[2]\n        + (from[3] - to[3]).abs() * coefficients[3]\n        + (from[4] - to[4]).abs() * coefficients[4]\n        + (from[5] - to[5]).abs() * coefficients[5]]\n    .iter()\n    .fold(f64::NEG_INFINITY, |a, &b| a.max(b))"
KEEP += [
    ('K107', UT, _TC_OLD, "    (from[0] - to[0]).abs() * coefficients[0]\n        + (from[1] - to[1]).abs() * coefficients[1]\n        + (from[2] - to[2]).abs() * coefficients[2]\n        + (from[3] - to[3]).abs() * coefficients[3]\n        + (from[4] - to[4]).abs() * coefficients[4]\n        + (from[5] - to[5]).abs() * coefficients[5]", ['C12'], 'the one-element max dropped from the transition cost'),
    ('K108', UT, _TC_OLD, "    let mut total = 0.0;\n    for i in 0..6 {\n        total += (from[i] - to[i]).abs() * coefficients[i];\n    }\n    total", ['C12'], 'transition cost as an accumulator loop'),
    ('K109', UT, "    if *x == 0.0 {\n        return \"0\".to_string();\n    }", "    if x == &0.0 {\n        return \"0\".to_string();\n    }", ['C19'], 'exact-zero test on the reference'),
    ('K110', CO, "        self.detect_collisions(&joint_poses_f32, &safety_distances, None)", "        self.detect_collisions(&joint_poses_f32, &safety_distances, Some(safety_distances.mode))", ['C10', 'C11'], 'near states the mode of the table it was given'),
    ('K111', K, "    let mut diff = (angle1 - angle2).abs();\n    diff = diff % (2.0 * PI);\n    while diff > PI {\n        diff = (2.0 * PI) - diff;\n    }\n    diff < SINGULARITY_ANGLE_THR", "    let diff = (angle1 - angle2).rem_euclid(2.0 * PI);\n    diff < SINGULARITY_ANGLE_THR || 2.0 * PI - diff < SINGULARITY_ANGLE_THR", ['C05'], 'discriminator through rem_euclid'),
]

MUTANTS += [
    ('M87', K, "                        now[J4] = previous[J4] + j_d;\n                        now[J6] = previous[J6] + j_d;\n\n                        // Check last time if the pose is ok\n                        let check_pose = self.forward(&now);\n                        if compare_poses(&pose, &check_pose, DISTANCE_TOLERANCE, ANGULAR_TOLERANCE) &&\n                            self.constraints_compliant(now) {",
     "                        let within_limits = self.constraints_compliant(now);\n                        now[J4] = previous[J4] + j_d;\n                        now[J6] = previous[J6] + j_d;\n\n                        // Check last time if the pose is ok\n                        let check_pose = self.forward(&now);\n                        if compare_poses(&pose, &check_pose, DISTANCE_TOLERANCE, ANGULAR_TOLERANCE) &&\n                            within_limits {",
     'C08', 'R08.3', 'limits of the recovered candidate checked before J4/J6 are redistributed'),
]

# ---- variants kept as unified diffs (selftest/keep/*.diff)
ALL = ['C%02d' % i for i in range(1, 21)]
KEEP += [
    ('K112', 'DIFF', 'K112_private_fields_renamed.diff', None, ALL,
     'private fields renamed: OPWKinematics (parameters, constraints, unit_z), Jacobian (matrix, epsilon), JointData (from, to), Tree (kdtree, vertices)'),
    ('K113', 'DIFF', 'K113_helpers_moved_consts_renamed.diff', None, ALL,
     'the free angle helpers of the solver moved into a new module; private constants renamed (tolerances, singularity band, TWO_PI, distortion bound)'),
    ('K114', 'DIFF', 'K114_clippy_fix.diff', None, ALL,
     'the output of `cargo clippy --fix` on the whole library (149 lines in 14 files: needless returns and borrows, field init shorthand, op-assign, let-chains, Option::map, iter() for into_iter(), let-and-return)'),
    ('K115', 'DIFF', 'K115_clippy_pedantic_fix.diff', None, ALL,
     'K114 plus the automatic fixes of 23 pedantic clippy lints (f64::from for `as f64`, if_not_else branch swaps, assert! for if-panic, copied for cloned, inlined format arguments, `for x in &mut v`, map_or_else)'),
    ('K116', 'DIFF', 'K116_clippy_flops_fix.diff', None, ALL,
     'K115 plus clippy suboptimal_flops / imprecise_flops: every a*b + c of the solver, forward() and the cost function written as a.mul_add(b, c)'),
    ('K117', 'DIFF', 'K117_to_yaml_string_builder.diff', None, ['C19'],
     'Parameters::to_yaml built piecewise: push_str of literals and format!(..), +=, write!/writeln! into one String'),
]

MUTANTS.append(('M88', PY, "              c3: {}\\n  \\", "              c3: {:.3}\\n  \\", 'C19', 'R19.2', 'c3 written with three decimals'))
MUTANTS.append(('M89', U, '            _ => Err(format!("More than one non-zero value in URDF offset {:?}", self).to_string()),',
                '            _ => Ok(non_zero_values[0]),', 'C20', 'R20.9', 'an origin with several non-zero components silently yields the first one'))
MUTANTS.append(('M90', U, "                        opw_parameters.c3 = non_zero(joint.vector.x, joint.vector.y)?;",
                "                        opw_parameters.c3 = non_zero(joint.vector.x, joint.vector.z)?;", 'C20', 'R20.9', 'c3 of joint 4 read from x/z (a2 sits on z)'))
MUTANTS.append(('M91', RT, "        while let Some(parent_index) = self.vertices[cur_index].parent_index {\n            cur_index = parent_index;\n            nodes.push(self.vertices[cur_index].data.clone())",
                "        while let Some(parent_index) = self.vertices[cur_index].parent_index {\n            cur_index = parent_index;\n            if cur_index == 0 { break; }\n            nodes.push(self.vertices[cur_index].data.clone())",
                'C13', 'R13.3', 'the ancestor walk stops before the root: paths lose their first and last node'))
MUTANTS.append(('M92', CA, "        for joints in onboarding.iter().take(onboarding.len().saturating_sub(1)) {", "        for joints in onboarding.iter().take(onboarding.len().saturating_sub(2)) {",
                'C12', 'R12.8', 'the last relocation waypoint before the strategy point is dropped'))
MUTANTS.append(('M93', CA, "            let transition = self.step_adaptive_linear_transition(&prev.joints, from, to, 0);", "            let transition = self.step_adaptive_linear_transition(work_path_start, from, to, 0);",
                'C12', 'R12.8', 'every transition continued from the strategy point instead of the last waypoint'))
MUTANTS.append(('M94', CA, "        if !self.include_linear_interpolation {", "        if self.include_linear_interpolation {", 'C12', 'R12.8', 'interpolated waypoints dropped when they were requested'))
MUTANTS.append(('M95', CA, "                    let solutions = self.robot.inverse_continuing(&to.pose, &prev.joints);", "                    let solutions = self.robot.inverse_continuing(&from.pose, &prev.joints);",
                'C12', 'R12.8', 'a gap is closed towards the source pose of the failed transition'))
MUTANTS.append(('M96', 'src/path_plan/rrt_to.rs', "                ExtendStatus::Advanced(_) => {}", "                ExtendStatus::Advanced(index) => return ExtendStatus::Reached(index),",
                'C13', 'R13.7', 'connect reports Reached although the tree only advanced'))
MUTANTS.append(('M97', 'src/path_plan/rrt_to.rs', "        self.vertices[q2_index].parent_index = Some(q1_index);", "        self.vertices[q1_index].parent_index = Some(q2_index);",
                'C13', 'R13.7', 'add_edge writes the child into the parent'))
MUTANTS.append(('M98', W, "        self.body.collides(joints, self.kinematics.as_ref())", "        !self.body.collides(joints, self.kinematics.as_ref())", 'C11', 'R11.5', 'collides of the robot with shape negated'))
MUTANTS.append(('M99', K, "            constraints: Some(constraints),", "            constraints: None,", 'C08', 'R08.5', 'the constructor drops the limits'))
MUTANTS.append(('M100', U, "    let opw_parameters = populate_opw_parameters(joint_data, joint_names)", "    let opw_parameters = populate_opw_parameters(joint_data, &None)",
                'C20', 'R20.11', 'explicit joint names ignored by the mapping stage'))
MUTANTS.append(('M101', 'src/path_plan/rrt.rs', "            self.step_size_joint_space, // Step size in joint space", "            self.step_size_joint_space * 4.0,", 'C13', 'R13.3', 'the tree search gets four times the configured step'))

# ---- seventh batch: the URDF reader
KEEP += [
    ('K118', None, [(U, "            let name;\n            let urdf_name = &child.attribute(\"name\")\n                .map(|attr| attr.value().to_string())\n                .unwrap_or_else(|| \"Unnamed\".to_string());\n            if joint_names.is_some() {\n                // If joint names are explicitly given, they are expected to be as they are.\n                name = urdf_name.clone();\n            } else {\n                // Otherwise effort is done to \"simplify\" the names into joint1 to joint6\n                name = preprocess_joint_name(urdf_name);\n            }\n",
                     "            let urdf_name = &child.attribute(\"name\")\n                .map(|attr| attr.value().to_string())\n                .unwrap_or_else(|| \"Unnamed\".to_string());\n            let name = if joint_names.is_none() {\n                preprocess_joint_name(urdf_name)\n            } else {\n                urdf_name.clone()\n            };\n", False),
                    (U, "            match limit_element.map(get_limits).transpose() {\n                Ok(Some((from, to))) => {\n                    joint_data.from = from;\n                    joint_data.to = to;\n                }\n                Ok(None) => {}\n                Err(e) => {\n                    println!(\"Joint limits defined but not not readable for {}: {}\",\n                             joint_data.name, e.to_string());\n                }\n            }\n",
                     "            if let Some(limits) = limit_element {\n                match get_limits(limits) {\n                    Ok((from, to)) => {\n                        joint_data.from = from;\n                        joint_data.to = to;\n                    }\n                    Err(e) => {\n                        println!(\"Joint limits defined but not not readable for {}: {}\",\n                                 joint_data.name, e.to_string());\n                    }\n                }\n            }\n", False)],
     None, ['C20', 'C07'], 'joint name chosen by an if-expression under the negated test; limits through if-let and match'),
    ('K119', None, [(U, "    if let Some(caps) = re.captures(attr_value) {\n        let degrees_str = caps.get(1)\n            .ok_or(ParameterError::WrongAngle(format!(\"Bad representation: {}\",\n                                                      attr_value).to_string()))?.as_str();\n        let degrees: f64 = degrees_str.parse()\n            .map_err(|_| ParameterError::WrongAngle(attr_value.to_string()))?;\n        Ok(degrees.to_radians())\n    } else {\n        // Try to parse the input as a plain number in that case it is in radians\n        let radians: f64 = attr_value.parse()\n            .map_err(|_| ParameterError::WrongAngle(attr_value.to_string()))?;\n        Ok(radians)\n    }\n",
                     "    let Some(caps) = re.captures(attr_value) else {\n        // Try to parse the input as a plain number in that case it is in radians\n        return attr_value.parse::<f64>()\n            .map_err(|_| ParameterError::WrongAngle(attr_value.to_string()));\n    };\n    let degrees_str = caps.get(1)\n        .ok_or(ParameterError::WrongAngle(format!(\"Bad representation: {}\",\n                                                  attr_value).to_string()))?.as_str();\n    let degrees: f64 = degrees_str.parse()\n        .map_err(|_| ParameterError::WrongAngle(attr_value.to_string()))?;\n    Ok(degrees.to_radians())\n", False),
                    (U, "    let lower_attr = element.attribute(\"lower\")\n        .ok_or_else(|| ParameterError::MissingField(\"lower limit not found\".into()))?\n        .value();\n    let lower_limit = parse_angle(lower_attr)?;\n\n    let upper_attr = element.attribute(\"upper\")\n        .ok_or_else(|| ParameterError::MissingField(\"upper limit not found\".into()))?\n        .value();\n    let upper_limit = parse_angle(upper_attr)?;\n\n    Ok((lower_limit, upper_limit))\n",
                     "    let read = |key: &str, missing: &str| -> Result<f64, ParameterError> {\n        let attr = element.attribute(key)\n            .ok_or_else(|| ParameterError::MissingField(missing.into()))?;\n        parse_angle(attr.value())\n    };\n    let lower_limit = read(\"lower\", \"lower limit not found\")?;\n    let upper_limit = read(\"upper\", \"upper limit not found\")?;\n    Ok((lower_limit, upper_limit))\n", False)],
     None, ['C20', 'C07'], 'parse_angle with let-else; both limits read through one closure'),
    ('K120', U, "        if let Some(existing) = map.get(&joint.name) {\n            // Check if the existing entry is different from the new one\n            if existing != &joint {\n                return Err(Box::new(std::io::Error::new(std::io::ErrorKind::InvalidData,\n                                                        format!(\"Duplicate joint name with different data found: {}\", joint.name))));\n            }\n        } else {\n            map.insert(joint.name.clone(), joint);\n        }\n",
     "        match map.get(&joint.name) {\n            Some(existing) if *existing != joint => {\n                return Err(Box::new(std::io::Error::new(std::io::ErrorKind::InvalidData,\n                                                        format!(\"Duplicate joint name with different data found: {}\", joint.name))));\n            }\n            Some(_) => {}\n            None => {\n                map.insert(joint.name.clone(), joint);\n            }\n        }\n",
     ['C20'], 'duplicate test as match with a guard on the dereferenced entry'),
    ('K121', U, "    if non_zero_values.len() == 1 && (non_zero_values[0] == -1 || non_zero_values[0] == 1) {\n        Ok(non_zero_values[0])\n    } else {\n        Ok(0) // This is a fixed joint\n    }\n",
     "    if non_zero_values.len() != 1 {\n        return Ok(0); // This is a fixed joint\n    }\n    Ok(non_zero_values[0])\n",
     ['C20'], 'axis sign: the redundant +-1 test dropped, fixed joint by early return'),
]

# ---- eighth batch: the YAML reader
KEEP += [
    ('K122', Y, "        // Ensure length is either 5 or 6, and pad with 0 if necessary\n        if sign_corrections.len() == 5 {\n            sign_corrections.push(0); // Add 0 as the 6th element\n        }\n\n        if sign_corrections.len() != 6 {\n            return Err(ParameterError::InvalidLength {\n                expected: 6,\n                found: sign_corrections.len(),\n            });\n        }\n",
     "        match sign_corrections.len() {\n            5 => sign_corrections.push(0),\n            6 => {}\n            n => {\n                return Err(ParameterError::InvalidLength {\n                    expected: 6,\n                    found: n,\n                });\n            }\n        }\n",
     ['C19'], 'length handling of the sign array as a match on len()'),
    ('K123', None, [(Y, "            .map(|item| match item {\n                Yaml::String(s) => Self::parse_degrees(s),\n                Yaml::Real(s) => s.parse::<f64>()\n                    .map_err(|_| ParameterError::ParseError(\"Failed to parse angle\".into())),\n                Yaml::Integer(s) => Ok(*s as f64),\n                _ => Ok(0.0),  // Default any invalid entry to 0\n            })\n",
                     "            .map(Self::read_angle)\n", False),
                    (Y, "    /// Parses angles from strings in degrees format or plain floats.\n    fn parse_degrees(",
                     "    fn read_angle(item: &Yaml) -> Result<f64, ParameterError> {\n        match item {\n            Yaml::String(s) => Self::parse_degrees(s),\n            Yaml::Real(s) => s.parse::<f64>()\n                .map_err(|_| ParameterError::ParseError(\"Failed to parse angle\".into())),\n            Yaml::Integer(s) => Ok(*s as f64),\n            _ => Ok(0.0),  // Default any invalid entry to 0\n        }\n    }\n\n    /// Parses angles from strings in degrees format or plain floats.\n    fn parse_degrees(", False)],
     None, ['C19'], 'the per-entry reader of the offsets array extracted into an associated function'),
    ('K124', None, [(Y, "        Ok(Parameters {\n            a1: Self::read_number(&params[\"a1\"], \"a1\")?,\n            a2: Self::read_number(&params[\"a2\"], \"a2\")?,\n            b: Self::read_number(&params[\"b\"], \"b\")?,\n",
                     "        let number = |key: &str| Self::read_number(&params[key], key);\n        let a1 = number(\"a1\")?;\n        let a2 = number(\"a2\")?;\n        let b = number(\"b\")?;\n        Ok(Parameters {\n            a1,\n            a2,\n            b,\n", False)],
     None, ['C19'], 'three scalars read through a closure keyed by name and held in locals'),
]

# ---- ninth batch: Frame
KEEP += [
    ('K125', F, "    let dist_a1_a2 = (a1 - a2).norm();\n    let dist_a1_a3 = (a1 - a3).norm();\n    let dist_a2_a3 = (a2 - a3).norm();\n\n    let dist_b1_b2 = (b1 - b2).norm();\n    let dist_b1_b3 = (b1 - b3).norm();\n    let dist_b2_b3 = (b2 - b3).norm();\n\n    (dist_a1_a2 - dist_b1_b2).abs() < tolerance &&\n        (dist_a1_a3 - dist_b1_b3).abs() < tolerance &&\n        (dist_a2_a3 - dist_b2_b3).abs() < tolerance\n",
     "    let close = |x: &Point3<f64>, y: &Point3<f64>, u: &Point3<f64>, v: &Point3<f64>| {\n        ((x - y).norm() - (u - v).norm()).abs() < tolerance\n    };\n    close(a1, a2, b1, b2) && close(a1, a3, b1, b3) && close(a2, a3, b2, b3)\n",
     ['C17'], 'the three distance comparisons through one closure'),
    ('K126', None, [(F, "        if v1.cross(&v2).norm() == 0.0 {\n            return Err(Box::new(ColinearPoints::new(p1, p2, p3, true)));\n        }\n",
                     "        let source_normal = v1.cross(&v2);\n        if source_normal.norm_squared() == 0.0 {\n            return Err(Box::new(ColinearPoints::new(p1, p2, p3, true)));\n        }\n", False),
                    (F, "        let b2 = v1.cross(&v2).normalize();\n", "        let b2 = source_normal.normalize();\n", False),
                    (F, "        let translation = q1 - rotation.transform_point(&p1);\n", "        let translation = q1 - rotation * p1;\n", False)],
     None, ['C17'], 'source normal held in a local, norm_squared() == 0 for norm() == 0, rotation * p1 for transform_point'),
    ('K127', F, "        if !is_valid_isometry(&p1, &p2, &p3, &q1, &q2, &q3, NON_ISOMETRY_TOLERANCE) {\n            return Err(Box::new(NotIsometry::new(p1, p2, p3, q1, q2, q3)));\n        }\n",
     "        let congruent = distances_match(&p1, &p2, &p3, &q1, &q2, &q3, NON_ISOMETRY_TOLERANCE);\n        if congruent {\n            // proceed\n        } else {\n            return Err(Box::new(NotIsometry::new(p1, p2, p3, q1, q2, q3)));\n        }\n",
     ['C17'], 'congruence helper called directly, verdict in a local, error in the else branch'),
]

# ---- tenth batch: the Cartesian planner
KEEP += [
    ('K128', CA, "        for joints in onboarding.iter().take(onboarding.len().saturating_sub(1)) {\n            trace.push(AnnotatedJoints {\n                joints: *joints,\n                flags: PathFlags::ONBOARDING,\n            });\n        }\n",
     "        for i in 0..onboarding.len().saturating_sub(1) {\n            trace.push(AnnotatedJoints {\n                joints: onboarding[i],\n                flags: PathFlags::ONBOARDING,\n            });\n        }\n",
     ['C12'], 'onboarding points copied by an index loop'),
    ('K129', CA, "        let mut pairs_iterator = poses.windows(2);\n\n        while let Some([from, to]) = pairs_iterator.next() {\n",
     "        for pair in poses.windows(2) {\n            let (from, to) = (&pair[0], &pair[1]);\n",
     ['C12'], 'pose pairs by a for loop over windows(2)'),
    ('K130', CA, "        if trace.par_iter().any(|step| self.robot.collides(&step.joints)) {\n            return Err(\"Collision detected\".into());\n        }\n",
     "        for step in &trace {\n            if self.robot.collides(&step.joints) {\n                return Err(\"Collision detected\".into());\n            }\n        }\n",
     ['C12'], 'final sweep as a sequential loop with early return'),
    ('K131', CA, "        if !self.include_linear_interpolation {\n            trace.retain(|step| !step.flags.contains(PathFlags::LIN_INTERP));\n        }\n\n        Ok(trace)\n",
     "        if self.include_linear_interpolation {\n            return Ok(trace);\n        }\n        Ok(trace\n            .into_iter()\n            .filter(|step| !step.flags.contains(PathFlags::LIN_INTERP))\n            .collect())\n",
     ['C12'], 'interpolated waypoints dropped by filter/collect under the inverted test'),
    ('K132', CA, "        for next in &solutions {\n            // Internal \"miniposes\" generated through recursion are not checked for collision.\n            // They only check agains continuity of the robot movement (no unexpected jerks)\n            let cost = transition_costs(starting, next, &self.transition_coefficients);\n            if cost <= self.max_transition_cost {\n                return Ok(vec![next.clone()]); // Track minimal cost observed\n            }\n        }\n",
     "        let affordable = solutions.iter().find(|next| {\n            transition_costs(starting, next, &self.transition_coefficients) <= self.max_transition_cost\n        });\n        if let Some(next) = affordable {\n            return Ok(vec![*next]);\n        }\n",
     ['C12'], 'first affordable solution by Iterator::find'),
    ('K133', CA, "            Ok(first_track\n                .into_iter()\n                .chain(second_track.into_iter())\n                .collect())\n",
     "            let mut track = first_track;\n            track.extend(second_track);\n            Ok(track)\n",
     ['C12'], 'the two half tracks joined with extend'),
]

# ---- eleventh batch: RRT glue
KEEP += [
    ('K134', R, "        data.and_then(|vectors| {\n            vectors\n                .into_iter()\n                .map(|vec| {\n                    if vec.len() == 6 {\n                        // Convert Vec<f64> to [f64; 6] if length is 6\n                        Ok([vec[0], vec[1], vec[2], vec[3], vec[4], vec[5]])\n                    } else {\n                        Err(\"One of the inner vectors does not have 6 elements.\".to_string())\n                    }\n                })\n                .collect()\n        })\n",
     "        let vectors = data?;\n        let mut out = Vec::with_capacity(vectors.len());\n        for vec in vectors {\n            let joints: Joints = vec\n                .as_slice()\n                .try_into()\n                .map_err(|_| \"One of the inner vectors does not have 6 elements.\".to_string())?;\n            out.push(joints);\n        }\n        Ok(out)\n",
     ['C13', 'C12'], 'path conversion by a loop with try_into and the ? operator'),
    ('K135', R, "        let path = dual_rrt_connect(\n            start,\n            goal,\n            collision_free,\n            random_joint_angles,\n            self.step_size_joint_space, // Step size in joint space\n            self.max_try,               // Max iterations\n            &stop,\n        );\n\n        path\n",
     "        dual_rrt_connect(\n            start,\n            goal,\n            collision_free,\n            random_joint_angles,\n            self.step_size_joint_space,\n            self.max_try,\n            stop,\n        )\n",
     ['C13'], 'planner call returned directly, stop passed without the extra borrow'),
    ('K136', R, "        let collision_free = |joint_angles: &[f64]| -> bool {\n            let joints = &<Joints>::try_from(joint_angles).expect(\"Cannot convert vector to array\");\n            !kinematics.collides(joints)\n        };\n",
     "        let collision_free = |joint_angles: &[f64]| -> bool {\n            let joints: Joints = joint_angles.try_into().expect(\"Cannot convert vector to array\");\n            if kinematics.collides(&joints) {\n                return false;\n            }\n            true\n        };\n",
     ['C13'], 'free-space predicate with try_into and an early return'),
]

# ---- twelfth batch: the pair decision of the collision check
KEEP += [
    ('K137', CO, "        let collides = if r_min <= NEVER_COLLIDES {\n            false\n        } else if r_min == TOUCH_ONLY {\n            parry3d::query::intersection_test(\n                self.transform_i,\n                self.shape_i,\n                self.transform_j,\n                self.shape_j,\n            )\n            .expect(SUPPORTED)\n        } else {",
     "        if r_min <= NEVER_COLLIDES {\n            return None;\n        }\n        let collides = if r_min == TOUCH_ONLY {\n            parry3d::query::intersection_test(\n                self.transform_i,\n                self.shape_i,\n                self.transform_j,\n                self.shape_j,\n            )\n            .expect(SUPPORTED)\n        } else {",
     ['C10', 'C11', 'C14'], 'never-colliding pairs leave the pair decision by an early return'),
    ('K138', CO, "            let (sm_shape, sm_transform, bg_shape, bg_transform) = \n                if self.shape_i.vertices().len() < self.shape_j.vertices().len() {\n                (self.shape_i, self.transform_i, self.shape_j, self.transform_j)\n            } else {\n                (self.shape_j, self.transform_j, self.shape_i, self.transform_i)\n            };            \n",
     "            let i_is_smaller = self.shape_i.vertices().len() < self.shape_j.vertices().len();\n            let (sm_shape, sm_transform) = if i_is_smaller {\n                (self.shape_i, self.transform_i)\n            } else {\n                (self.shape_j, self.transform_j)\n            };\n            let (bg_shape, bg_transform) = if i_is_smaller {\n                (self.shape_j, self.transform_j)\n            } else {\n                (self.shape_i, self.transform_i)\n            };\n",
     ['C10'], 'smaller and bigger body chosen by two separate if-expressions on one test'),
    ('K139', CO, "        if collides {\n            Some((self.i.min(self.j), self.i.max(self.j)))\n        } else {\n            None\n        }\n    }\n}\n\n/// Struct representing the geometry",
     "        if !collides {\n            return None;\n        }\n        if self.i <= self.j {\n            Some((self.i, self.j))\n        } else {\n            Some((self.j, self.i))\n        }\n    }\n}\n\n/// Struct representing the geometry",
     ['C10'], 'reported pair ordered by a comparison instead of min/max'),
    ('K140', CO, "            let sm_box_transform = sm_transform * Translation3::from(sm_aabb.center().coords);\n",
     "            let centre = sm_aabb.center();\n            let sm_box_transform = sm_transform * Translation3::new(centre.x, centre.y, centre.z);\n",
     ['C10'], 'box centre passed by components'),
]

# ---- thirteenth batch: Jacobian
KEEP += [
    ('K141', J, "    let jacobian_columns: Vec<_> = (0..6).into_iter().map(|i| {\n        let mut perturbed_qs = *joints;\n        perturbed_qs[i] += epsilon;\n        let perturbed_pose = robot.forward(&perturbed_qs);\n        let perturbed_position = perturbed_pose.translation.vector;\n        let perturbed_orientation = perturbed_pose.rotation;\n\n        let delta_position = (perturbed_position - current_position) / epsilon;\n        let delta_orientation = (perturbed_orientation * current_orientation.inverse()).scaled_axis() / epsilon;\n\n        (delta_position, delta_orientation)\n    }).collect();\n\n    for (i, (delta_position, delta_orientation)) in jacobian_columns.into_iter().enumerate() {\n        jacobian.fixed_view_mut::<3, 1>(0, i).copy_from(&delta_position);\n        jacobian.fixed_view_mut::<3, 1>(3, i).copy_from(&delta_orientation);\n    }\n",
     "    for i in 0..6 {\n        let mut perturbed_qs = *joints;\n        perturbed_qs[i] += epsilon;\n        let perturbed_pose = robot.forward(&perturbed_qs);\n        let perturbed_position = perturbed_pose.translation.vector;\n        let perturbed_orientation = perturbed_pose.rotation;\n\n        let delta_position = (perturbed_position - current_position) / epsilon;\n        let delta_orientation = (perturbed_orientation * current_orientation.inverse()).scaled_axis() / epsilon;\n\n        jacobian.fixed_view_mut::<3, 1>(0, i).copy_from(&delta_position);\n        jacobian.fixed_view_mut::<3, 1>(3, i).copy_from(&delta_orientation);\n    }\n",
     ['C15'], 'columns computed and stored in one loop'),
    ('K142', J, "        let joint_torques = self.matrix.transpose() * F;\n        vector6_to_joints(joint_torques)\n",
     "        vector6_to_joints(self.matrix.tr_mul(F))\n",
     ['C15'], 'J^T F through tr_mul'),
    ('K143', J, "        let linear_force = desired_force_isometry.translation.vector;\n        let angular_torgue = desired_force_isometry.rotation.scaled_axis();\n\n        // Combine into a single 6D vector\n        let desired_force_torgue_vector = Vector6::new(\n            linear_force.x, linear_force.y, linear_force.z,\n            angular_torgue.x, angular_torgue.y, angular_torgue.z,\n        );\n",
     "        let linear_force = desired_force_isometry.translation.vector;\n        let angular_torgue = desired_force_isometry.rotation.scaled_axis();\n\n        // Combine into a single 6D vector\n        let mut desired_force_torgue_vector = Vector6::zeros();\n        desired_force_torgue_vector.fixed_rows_mut::<3>(0).copy_from(&linear_force);\n        desired_force_torgue_vector.fixed_rows_mut::<3>(3).copy_from(&angular_torgue);\n",
     ['C15'], 'wrench vector assembled from two 3-vectors'),
]

# ---- fourteenth batch: shape wrapper, parallelogram, tool/base
KEEP += [
    ('K144', W, "        let mut filtered_solutions = Vec::with_capacity(solutions.len());\n        for solution in solutions {\n            if !self.body.collides(&solution, self.kinematics.as_ref()) {\n                filtered_solutions.push(solution);\n            }\n        }\n        filtered_solutions\n",
     "        let mut solutions = solutions;\n        solutions.retain(|solution| !self.body.collides(solution, self.kinematics.as_ref()));\n        solutions\n",
     ['C11', 'C08'], 'colliding solutions dropped in place by retain'),
    ('K145', W, "                safety: SafetyDistances::standard(\n                    if first_collision_only {\n                        CheckMode::FirstCollisionOnly\n                    } else {\n                        CheckMode::AllCollsions\n                    }),\n",
     "                safety: SafetyDistances::standard(match first_collision_only {\n                    true => CheckMode::FirstCollisionOnly,\n                    false => CheckMode::AllCollsions,\n                }),\n",
     ['C11', 'C10'], 'check mode chosen by a match on the flag'),
    ('K146', W, "    pub fn collides(&self, joints: &Joints) -> bool {\n        self.body.collides(joints, self.kinematics.as_ref())\n    }\n",
     "    pub fn collides(&self, joints: &Joints) -> bool {\n        let robot: &dyn Kinematics = &*self.kinematics;\n        self.body.collides(joints, robot)\n    }\n",
     ['C11', 'C12', 'C13'], 'the stack held in a typed local before the collision call'),
]

# ---- fifteenth batch: Tool / Base / Parallelogram
KEEP += [
    ('K147', None, [(T, "impl Kinematics for Tool {\n    fn inverse(&self, tcp: &Pose) -> Solutions {\n        self.robot.inverse(&(tcp * self.tool.inverse()))\n    }\n\n    fn inverse_5dof(&self, tcp: &Pose, j6: f64) -> Solutions {\n        self.robot.inverse_5dof(&(tcp * self.tool.inverse()), j6)\n    }\n\n    fn inverse_continuing_5dof(&self, tcp: &Pose, previous: &Joints) -> Solutions {\n        self.robot.inverse_continuing_5dof(&(tcp * self.tool.inverse()), previous)\n    }\n\n    fn inverse_continuing(&self, tcp: &Pose, previous: &Joints) -> Solutions {\n        self.robot.inverse_continuing(&(tcp * self.tool.inverse()), previous)\n    }\n",
                     "impl Tool {\n    /// Pose of the flange for the given pose of the tool centre point\n    fn flange(&self, tcp: &Pose) -> Pose {\n        tcp * self.tool.inverse()\n    }\n}\n\nimpl Kinematics for Tool {\n    fn inverse(&self, tcp: &Pose) -> Solutions {\n        self.robot.inverse(&self.flange(tcp))\n    }\n\n    fn inverse_5dof(&self, tcp: &Pose, j6: f64) -> Solutions {\n        self.robot.inverse_5dof(&self.flange(tcp), j6)\n    }\n\n    fn inverse_continuing_5dof(&self, tcp: &Pose, previous: &Joints) -> Solutions {\n        self.robot.inverse_continuing_5dof(&self.flange(tcp), previous)\n    }\n\n    fn inverse_continuing(&self, tcp: &Pose, previous: &Joints) -> Solutions {\n        self.robot.inverse_continuing(&self.flange(tcp), previous)\n    }\n", False)],
     None, ['C09', 'C03', 'C06', 'C16'], 'the flange pose of the four Tool inverse entry points through one helper'),
    ('K148', T, "        // Apply the base transformation to each pose\n        for pose in poses.iter_mut() {\n            *pose = self.base * *pose;\n        }\n\n        poses\n",
     "        // Apply the base transformation to each pose\n        for i in 0..poses.len() {\n            poses[i] = self.base * poses[i];\n        }\n\n        poses\n",
     ['C09', 'C03'], 'link poses moved by an index loop over poses.len()'),
    ('K149', None, [(P, "impl Kinematics for Parallelogram {\n    fn inverse(&self, tcp: &Pose) -> Solutions {\n        let mut solutions = self.robot.inverse(tcp);\n\n        // Reversing the influence of driven joint in inverse kinematics\n        solutions.iter_mut().for_each(|x| x[self.coupled] += \n            self.scaling * x[self.driven]); \n        solutions\n    }\n",
                     "impl Parallelogram {\n    fn couple(&self, mut solutions: Solutions) -> Solutions {\n        for x in solutions.iter_mut() {\n            x[self.coupled] += self.scaling * x[self.driven];\n        }\n        solutions\n    }\n}\n\nimpl Kinematics for Parallelogram {\n    fn inverse(&self, tcp: &Pose) -> Solutions {\n        self.couple(self.robot.inverse(tcp))\n    }\n", False)],
     None, ['C16', 'C08'], 'the post-map of Parallelogram::inverse moved into a helper taking and returning the solutions'),
]


# ---- rewrites written by independent sub-agents (tools/refactor_prompt.py): four per property, each verified by its author to pass the
# 66 tests and to be bit-identical on a differential test (selftest/keep/meta/R_<id>.json)
KEEP_AGENTS = [
    ('R02-1', 'DIFF', 'R_C02_1.diff', None, ALL, 'index loops -> iterator chains (zip/enumerate/all), guard clause with continue, else-if flattening: In OPWKinematics::inverse_intern the offset/sign mapping of the 8x6 theta table is written with iter'),
    ('R02-2', 'DIFF', 'R_C02_2.diff', None, ALL, 'repeated code moved into a closure, array map with destructuring, deferred-init temporaries removed: In inverse_intern the four copy-pasted blocks that compute theta4/theta6 of the shoulder x elbow br'),
    ('R02-3', 'DIFF', 'R_C02_3.diff', None, ALL, 'extract helper method (std::array::from_fn), if/else -> match, if/else -> bool::then_some: The joint -> model angle mapping `joints[i] * sign_corrections[i] as f64 - offsets[i]`, written out six times'),
    ('R02-4', 'DIFF', 'R_C02_4.diff', None, ALL, 'data carried differently (wrist-flipped half of the table generated from the first half), temporaries reused/removed, TAU for 2.0 * PI: In inverse_intern the twelve named temporaries theta4_v..viii, t'),
    ('R03-1', 'DIFF', 'R_C03_1.diff', None, ALL, 'extract helper method; six unrolled statements -> std::array::from_fn over the joint index; array destructuring: The six duplicated apply sign correction and offset lines in OPWKinematics::forward a'),
    ('R03-2', 'DIFF', 'R_C03_2.diff', None, ALL, 'sequential let-chain -> data table (array of tuples) + enumerate loop with accumulator array: forward_with_joint_poses: the six hand-written pose_i = pose_{i-1} * Isometry3::from_parts(Translation3::n'),
    ('R03-3', 'DIFF', 'R_C03_3.diff', None, ALL, 'equivalent library call (sin + cos -> sin_cos, f64::atan2(a,b)/f64::sqrt(x) -> method form), reuse of already computed values, independent statements reordered, temporaries removed/introduced: forward'),
    ('R03-4', 'DIFF', 'R_C03_4.diff', None, ALL, 'extract free functions; data carried as (sin, cos) tuples destructured in parameter patterns; named temporaries removed: forward: the construction of the two rotation matrices r_0c (joints 1-3) and r_'),
    ('R04-1', 'DIFF', 'R_C04_1.diff', None, ALL, 'extract helper functions + index loops -> iterator (iter_mut/zip); if/else assignment -> if/else expression in a method: The duplicated CONSTRAINT_CENTERED sentinel -> constraint centres selection i'),
    ('R04-2', 'DIFF', 'R_C04_2.diff', None, ALL, 'if/else + unwrap -> match with guard; per-pair temporaries -> per-solution cost closure; inverted condition with swapped branches: sort_by_closeness: the map_or(BY_PREV, ..) / `== BY_PREV` / constrain'),
    ('R04-3', 'DIFF', 'R_C04_3.diff', None, ALL, 'inline nested helper into a counted loop; &mut out-parameter -> value-returning function; std constant TAU for 2.0 * PI; index loops -> iter_mut + array::from_fn: normalize_near(&mut f64, f64) with it'),
    ('R04-4', 'DIFF', 'R_C04_4.diff', None, ALL, 'index loop with break -> iterator find + let-else + continue; if-let -> match; deferred-initialised locals -> tuple returned from if/else expression: In inverse_continuing the inner `for s_idx in 0..i'),
    ('R05-1', 'DIFF', 'R_C05_1.diff', None, ALL, 'index loops -> iterator chains (find, iter_mut/zip); if-let -> match: In inverse_continuing the `for s_idx in 0..ik.len()` search with a trailing `break` becomes `ik.iter().find(|c| kinematic_singular'),
    ('R05-2', 'DIFF', 'R_C05_2.diff', None, ALL, 'extract helper method / extract helper function: The sign/offset corrected J5 (`joints[J5] * sign_corrections[J5] as f64 - offsets[J5]`), computed separately in kinematic_singularity and in inverse_co'),
    ('R05-3', 'DIFF', 'R_C05_3.diff', None, ALL, 'control flow: if-expression, inverted condition with swapped branches, guard clause with early break, bool::then_some, while -> if: `let previous; if .. {..} else {..}` becomes an if-expression; the `'),
    ('R05-4', 'DIFF', 'R_C05_4.diff', None, ALL, 'data carried differently (tuple from if-expression, nalgebra vectors instead of scalar components), equivalent library constants/calls (TAU, *0.5, %=), independent statements re-ordered: The micro-shi'),
    ('R06-1', 'DIFF', 'R_C06_1.diff', None, ALL, 'if/else -> match dispatch; deferred-init if/else -> if expression; duplicated index loops extracted into a helper that uses iter_mut().zip(); temporary introduced for J6: src/kinematics_impl.rs: Kinem'),
    ('R06-2', 'DIFF', 'R_C06_2.diff', None, ALL, 'extract helper returning Option + let-else guard clause; index loop -> enumerate iterator; flag variable removed; nested else { if } flattened to else if: src/kinematics_impl.rs, inverse_intern_5_dof:'),
    ('R06-3', 'DIFF', 'R_C06_3.diff', None, ALL, 'four copy-pasted computations -> one closure evaluated per branch; deferred-initialised scalars -> fixed-size arrays ([f64; 4] via array::map); named temporaries for the flipped-wrist values inlined i'),
    ('R06-4', 'DIFF', 'R_C06_4.diff', None, ALL, 'Option combinator chain -> match; mutate-after-read -> array destructuring and rebuild; default via temporary Vec<Yaml> -> early return (let-else); len check + unwrap -> try_from(..).map_err; if/else '),
    ('R07-1', 'DIFF', 'R_C07_1.diff', None, ALL, 'extract helper + merge duplicated branches + index loop -> zip/enumerate, if/else -> match on Option: src/constraints.rs: compute_centers now delegates the per-joint work to a new private helper Const'),
    ('R07-2', 'DIFF', 'R_C07_2.diff', None, ALL, 'mutable temporaries removed / helper extracted / early return -> boolean expression / iterator chains -> explicit loops: src/constraints.rs: inside_bounds is split into a pure circular_distance(angle1'),
    ('R07-3', 'DIFF', 'R_C07_3.diff', None, ALL, 'data carried differently (named constant + tuple, struct built once instead of mutated) / match -> if-let + unwrap_or_else / closure helper / if-else -> conditional expression + destructuring assignme'),
    ('R07-4', 'DIFF', 'R_C07_4.diff', None, ALL, 'equivalent library calls (TAU for 2.0*PI, each_ref().map for hand-written arrays, partial_cmp + match for if/else-if chain, compound assignment) / constructor delegation / default moved into initialis'),
    ('R09-1', 'DIFF', 'R_C09_1.diff', None, ALL, 'extract helper method: src/tool.rs: the pose pre-mapping repeated in the four inverse entry points of Tool (tcp * tool^-1) and of Base (base^-1 * tcp) is extracted into private methods Tool::flange_po'),
    ('R09-2', 'DIFF', 'R_C09_2.diff', None, ALL, 'loop -> array map, match -> guard clause + indexed write, temporaries removed/introduced: src/tool.rs: Base::forward_with_joint_poses replaces the iter_mut loop by [Pose; 6]::map(|pose| base * pose); '),
    ('R09-3', 'DIFF', 'R_C09_3.diff', None, ALL, 'computation moved behind a closure-taking helper, array destructuring instead of indexed in-place update, temporaries inlined: src/frame.rs: the four inverse entry points of `impl Kinematics for Frame'),
    ('R09-4', 'DIFF', 'R_C09_4.diff', None, ALL, 'push loop -> into_iter().filter().collect(), if-let/else -> Option::map, enumerate+index -> zip, temporaries inlined / redundant clone of Copy removed: src/kinematics_with_shape.rs: create_robot_with_'),
    ('R10-1', 'DIFF', 'R_C10_1.diff', None, ALL, 'guard clause / early return, extracted helper methods, if-else -> && short circuit, bool::then: CollisionTask::collides: the NEVER_COLLIDES case became an early `return None`; the AABB pre-filter was '),
    ('R10-2', 'DIFF', 'R_C10_2.diff', None, ALL, 'if-let chain with returns -> Option combinators (or_else / unwrap_or_else), insert loop -> extend over iterator map, De Morgan + guard clause, temporary introduced: SafetyDistances::min_distance now l'),
    ('R10-3', 'DIFF', 'R_C10_3.diff', None, ALL, 'for loops with if+push -> iterator chains (enumerate/zip/filter/map/extend), index loop -> iterator, nested if -> Option::filter, range bound replaces a condition: RobotBody::detect_collisions_with_sk'),
    ('R10-4', 'DIFF', 'R_C10_4.diff', None, ALL, 'extract helper function, if/else-if on enum -> exhaustive match, Option->Vec via map_or_else, temporaries removed, iter()+cast -> into_iter()+usize::from: The repeated `forward_with_joint_poses(..).ma'),
    ('R08-1', 'DIFF', 'R_C08_1.diff', None, ALL, 'iterator chains -> explicit loops with early return; mutable reassignments -> immutable temporaries with if-expression; merged duplicate branches (guard clause + continue): src/constraints.rs: Constra'),
    ('R08-2', 'DIFF', 'R_C08_2.diff', None, ALL, 'match -> if-let / Option::map_or; filter-into-new-Vec -> Vec::retain in place; if/else -> early return guard; deferred-init let + if/else statement -> if-expression; nested call -> named temporary: sr'),
    ('R08-3', 'DIFF', 'R_C08_3.diff', None, ALL, 'extract helper method for duplicated tail; index loops -> iterators (iter_mut + zip, for-in over reference): src/kinematics_impl.rs: the identical tail of inverse_continuing and inverse_continuing_5do'),
    ('R08-4', 'DIFF', 'R_C08_4.diff', None, ALL, 'extract helper methods in the wrappers; for_each closure -> for loop; temporaries removed: src/parallelogram.rs: the four copies of the post-processing `solutions.iter_mut().for_each(|x| x[coupled] +='),
    ('R01-1', 'DIFF', 'R_C01_1.diff', None, ALL, 'extract helper function + inverted condition with early break (guard clause): The three copies of the while angle > PI { angle -= 2*PI } while angle < -PI { angle += 2*PI } wrap-around (singular J4/'),
    ('R01-2', 'DIFF', 'R_C01_2.diff', None, ALL, 'index loops -> iterator chain (array::map, enumerate, filter_map, all, iter_mut, extend) + inlined helper: inverse_intern_5_dof: the 8x6 candidate table is built with theta.map(|branch| ...) starting '),
    ('R01-3', 'DIFF', 'R_C01_3.diff', None, ALL, 'control-flow restructuring: deferred-init if/else -> match expression, index loop with break -> Iterator::find + let-else, if-let removed, s/s_n as a tuple from an if-expression, index loops -> iter_m'),
    ('R01-4', 'DIFF', 'R_C01_4.diff', None, ALL, 'de-duplication of copy-pasted blocks into closures over the branch index; data carried in fixed arrays (array::from_fn, array::map, array destructuring) instead of 16 named temporaries: inverse_intern'),
    ('R11-1', 'DIFF', 'R_C11_1.diff', None, ALL, 'loop -> iterator chain; index loop -> zip; if-let/else -> Option::map: KinematicsWithShape::remove_collisions: the push-loop over the solutions becomes solutions.into_iter().filter(|s| !body.collides('),
    ('R11-2', 'DIFF', 'R_C11_2.diff', None, ALL, 'de-duplicate constructors (delegate to existing method); if/else -> match on bool; temporaries removed, .clone() of Copy values dropped: KinematicsWithShape::new no longer repeats the struct literal o'),
    ('R11-3', 'DIFF', 'R_C11_3.diff', None, ALL, 'extract helper; if/else -> short-circuit &&; if/else -> bool::then_some; early returns -> Option combinators (or_else / unwrap_or_else): collisions.rs: the repeated forward_with_joint_poses + cast::<'),
    ('R11-4', 'DIFF', 'R_C11_4.diff', None, ALL, 'in-place Vec::retain instead of rebuild loop; temporaries inlined; if/else-if chain -> exhaustive match; loop range tightened instead of guard condition: remove_collisions takes the Vec as mut soluti'),
    ('R13-1', 'DIFF', 'R_C13_1.diff', None, ALL, 'extract helper + guard clause / early return + match -> matches! (iterator chain -> explicit push loop): src/path_plan/rrt_to.rs: the computation of q_new in Tree::extend is extracted into an associat'),
    ('R13-2', 'DIFF', 'R_C13_2.diff', None, ALL, 'while-let loop -> iterator chain (iter::successors/map/collect), match -> if-let with or-pattern, in-place reverse/append -> rev().chain().collect(), temporaries removed: src/path_plan/rrt_to.rs: Tree'),
    ('R13-3', 'DIFF', 'R_C13_3.diff', None, ALL, 'Result/iterator combinators -> `?` and for loop, manual length check + element copy -> TryFrom<Vec>, expect -> let-else, try_from on value -> try_into to a borrowed array, tail expression instead of t'),
    ('R13-4', 'DIFF', 'R_C13_4.diff', None, ALL, 'inline nested helper into a closure + array literal -> std::array::from_fn, common sub-expression hoisted out of both branches, mutable re-assignment -> immutable bindings/if-expression, iterator all('),
    ('R14-1', 'DIFF', 'R_C14_1.diff', None, ALL, 'extract helper method + loop -> iterator chain + if/else -> then_some, nested if-let -> Option::is_some_and guard: RobotBody::non_colliding_offsets: the 12 (joint, source) candidates are built with (0'),
    ('R14-2', 'DIFF', 'R_C14_2.diff', None, ALL, 'if-let/else-if chain -> Option combinators; boolean expression -> guard clause + match (De Morgan, inverted predicate); loop range tightened instead of in-loop test: SafetyDistances::min_distance is r'),
    ('R14-3', 'DIFF', 'R_C14_3.diff', None, ALL, 'data carried differently (Vec of tuples -> fixed array of a small struct via array::from_fn), iterator collect -> explicit insert loop, temporaries introduced, if/else -> usize::from(bool): RobotBody:'),
    ('R14-4', 'DIFF', 'R_C14_4.diff', None, ALL, 'for loops with push -> Vec::extend over enumerate/map/filter/map chains; nested if + if-let -> single tuple if-let; if/else-if on enum equality -> match; Option::into_iter().collect() -> match buildin'),
    ('R15-1', 'DIFF', 'R_C15_1.diff', None, ALL, 'iterator chain + collect + second loop fused into one index loop; temporaries removed/introduced: compute_jacobian: the `(0..6).into_iter().map(..).collect::<Vec<_>>()` of (delta_position, delta_orien'),
    ('R15-2', 'DIFF', 'R_C15_2.diff', None, ALL, 'if-let/else with deferred initialisation and nested match -> single match expression with map_err + ?; duplicated multiplication merged: velocities_from_vector: instead of a late-initialised `joint_ve'),
    ('R15-3', 'DIFF', 'R_C15_3.diff', None, ALL, 'extract helper function; delegate one entry point to another (remove duplicated code): The duplicated translation vector + rotation.scaled_axis() -> Vector6 code in Jacobian::velocities and Jacobian'),
    ('R15-4', 'DIFF', 'R_C15_4.diff', None, ALL, 'data carried differently (Vec of Vector3 tuples -> fixed array of Vector6 via std::array::from_fn, Matrix6::from_columns instead of zeros + view copies); loop-invariant hoisted: compute_jacobian: the '),
    ('R16-1', 'DIFF', 'R_C16_1.diff', None, ALL, 'extract helper methods (data in / data out); for_each closure -> for loop: The coupling update repeated in the four inverse entry points is moved into a private Parallelogram::couple(Solutions) -> Sol'),
    ('R16-2', 'DIFF', 'R_C16_2.diff', None, ALL, 'iterator for_each -> index loop; temporaries introduced; independent statements re-ordered: In all four inverse entry points solutions.iter_mut().for_each(|x| ...) becomes for i in 0..solutions.len() '),
    ('R16-3', 'DIFF', 'R_C16_3.diff', None, ALL, 'in-place mutation -> consuming iterator chain (into_iter/map/collect); compound assignment expanded; struct destructuring of fields: The inverse entry points no longer keep a mutable `solutions` local'),
    ('R16-4', 'DIFF', 'R_C16_4.diff', None, ALL, 'higher-order helper taking a closure; named closure; guard clause / early return: Two private generic helpers are introduced: inverse_with(|robot| robot.inverse...(..)) runs the supplied inner solver,'),
    ('R17-1', 'DIFF', 'R_C17_1.diff', None, ALL, 'named temporaries + && chain -> array of side pairs + iterator all(): frame.rs distances_match: the six distance temporaries and the three-term && chain are replaced by an array of (source side, targe'),
    ('R17-2', 'DIFF', 'R_C17_2.diff', None, ALL, 'extract helper function + Option combinator (ok_or_else + ?) instead of guard-clause returns: frame.rs Frame::frame: the duplicated source/target code (difference vectors, colinearity guard, normalize'),
    ('R17-3', 'DIFF', 'R_C17_3.diff', None, ALL, 'deduplicate into private methods; deferred-initialised let -> if expression; index loops -> iter_mut/zip: kinematics_impl.rs inverse_continuing and inverse_continuing_5dof (called by Frame::forward_tr'),
    ('R17-4', 'DIFF', 'R_C17_4.diff', None, ALL, 'if/else on a map_or value + unwrap -> match with guard; paired a/b temporaries -> cost closure; temporaries removed: kinematics_impl.rs sort_by_closeness (ordering of the solutions returned by forward'),
    ('R18-1', 'DIFF', 'R_C18_1.diff', None, ALL, 'explicit 6-element array literal -> std::array::from_fn; result temporary removed; 2.0 * PI -> std::f64::consts::TAU: Constraints::random_angles builds the joint array with std::array::from_fn over th'),
    ('R18-2', 'DIFF', 'R_C18_2.diff', None, ALL, 'extract helper method + hoist common expression out of both branches + inner fn -> closure + early return: The arc width computation (plain difference for from < to, otherwise rem_euclid over a full t'),
    ('R18-3', 'DIFF', 'R_C18_3.diff', None, ALL, 'data carried differently (one RNG handle passed by &mut instead of one per call) + array literal -> zip loop filling an array + mutable-if -> match with guard + `from +` factored out of the branches: '),
    ('R18-4', 'DIFF', 'R_C18_4.diff', None, ALL, 'guard clause / early return, inverted condition with swapped branches, shadowing instead of mutation, enumerate+index -> zip, chained call -> named temporary (RRT sampling callback): random_angle retu'),
    ('R19-1', 'DIFF', 'R_C19_1.diff', None, ALL, 'extract generic helper; two if-statements -> one match on length: src/parameters_from_file.rs: the duplicated pad 5 entries to 6, otherwise InvalidLength, then try_into tail of read_sign_corrections'),
    ('R19-2', 'DIFF', 'R_C19_2.diff', None, ALL, 'equivalent library call, Option/Result combinators -> match / let-else, closure for repeated field extraction, mutation -> array pattern rebuild, struct field init shorthand: src/parameters_from_file.'),
    ('R19-3', 'DIFF', 'R_C19_3.diff', None, ALL, 'iterator chain + collect::<Result> -> for loop with ?, closure body extracted into a helper fn, if-let/else -> match with shared error closure, Option combinators -> match on enum variants: src/parame'),
    ('R19-4', 'DIFF', 'R_C19_4.diff', None, ALL, 'single format! -> incremental String building with a loop over (name, value) pairs; map/collect/join -> index-aware loop in a local generic fn; inverted condition with swapped branches; inline format '),
    ('R12-1', 'DIFF', 'R_C12_1.diff', None, ALL, 'index loop + if/else special-casing -> anchor list built with iterator chain, traversed with windows(2): Cartesian::with_intermediate_poses (pose densification driver): instead of pushing land, branch'),
    ('R12-2', 'DIFF', 'R_C12_2.diff', None, ALL, 'while-let over a slice iterator -> for; enumerate loop with per-item flag choice -> split_last + extend; success-flag search loop -> find_map + let-else: Cartesian::probe_strategy (flag assignment and'),
    ('R12-3', 'DIFF', 'R_C12_3.diff', None, ALL, 'for loop with early return -> Iterator::find; if/else inverted into a guard clause with early Err return; chain().collect() -> extend on the first vector: Cartesian::step_adaptive_linear_transition (a'),
    ('R12-4', 'DIFF', 'R_C12_4.diff', None, ALL, 'extract helper method + temporaries removed/introduced; push loop -> into_iter().filter().collect(); manual length check and element-wise copy -> TryFrom<Vec<f64>> for [f64; 6]: Cartesian::add_interme'),
    ('R20-1', 'DIFF', 'R_C20_1.diff', None, ALL, 'Vec + len()/index checks -> lazy iterator with (next(), next()) match; slice pattern instead of len check + indexing: Vector3::non_zero, get_axis_sign and get_xyz_from_origin in src/urdf.rs: the tempo'),
    ('R20-2', 'DIFF', 'R_C20_2.diff', None, ALL, 'extract helper (first child by tag), guard clause with continue, deferred-init if/else -> match expression, mutable struct patch-up -> temporaries + single struct literal: collect_joints in src/urdf.r'),
    ('R20-3', 'DIFF', 'R_C20_3.diff', None, ALL, 'index loop -> iter().enumerate(), 1-based match -> 0-based match, duplicated nested fn -> one shared helper, float-literal pattern match -> if/else chain, if/else -> if expression + guard: populate_op'),
    ('R20-4', 'DIFF', 'R_C20_4.diff', None, ALL, 'if-let/else -> let-else with early return, ok_or/? -> match, repeated code -> local closure, get/insert -> HashMap entry API, duplicated struct construction -> delegation to sibling methods: src/urdf.'),
    ('R08-5', 'DIFF', 'R_C08_5.diff', None, ALL, 'extract helper (shared constructor) + Option combinator -> match through the accessor: OPWKinematics::new and new_with_constraints now both delegate to a private with_optional_constraints(parameters, '),
    ('R08-6', 'DIFF', 'R_C08_6.diff', None, ALL, 'match -> if-let / map_or; filter-clone-collect of a borrowed Vec -> in-place retain on the owned Vec: OPWKinematics::filter_constraints_compliant keeps the owned solutions vector and calls retain(|s| '),
    ('R08-7', 'DIFF', 'R_C08_7.diff', None, ALL, 'iterator chains -> explicit loops with early return; mutable temporary -> immutable lets with if-expression: Constraints::compliant is an index loop over the six joints returning false at the first jo'),
    ('R08-8', 'DIFF', 'R_C08_8.diff', None, ALL, 'extract shared tail helper; index loops -> iter_mut/zip; deferred-init let + if/else -> let = if-expression: The common tail of inverse_continuing and inverse_continuing_5dof (normalize every angle ne'),
    ('R10-5', 'DIFF', 'R_C10_5.diff', None, ALL, 'extract helper function / temporaries removed / iter()->into_iter() with destructuring: The forward-kinematics + f64->f32 cast of the six joint poses, repeated in RobotBody::collision_details, collide'),
    ('R10-6', 'DIFF', 'R_C10_6.diff', None, ALL, 'loop -> iterator collect; if-let/else-if chain with returns -> Option combinators (or_else / unwrap_or_else); Self; merged integer comparison: SafetyDistances::distances builds the map with pairs.iter'),
    ('R10-7', 'DIFF', 'R_C10_7.diff', None, ALL, 'if/else-if chain -> match on enum; guard clause / early return; if-else Some/None -> bool::then; closure inverted (De Morgan) and written as match: process_collision_tasks dispatches with `match` over'),
    ('R10-8', 'DIFF', 'R_C10_8.diff', None, ALL, 'index loops with push -> iterator chains (zip/enumerate/rev/filter/map) with Vec::extend; filter condition folded into range bound: In detect_collisions_with_skips the pair enumeration per joint is re'),
    ('R12-5', 'DIFF', 'R_C12_5.diff', None, ALL, 'match -> guard clause in a named closure; Option<Result> + unwrap_or_else -> Option + ok_or_else; Arc<AtomicBool> -> plain AtomicBool (data carried differently): Cartesian::plan: the per-strategy body'),
    ('R12-6', 'DIFF', 'R_C12_6.diff', None, ALL, 'loops -> iterator chains / slice patterns (take(len-1) -> split_last, enumerate + index test -> split_last, while-let over windows -> for), temporaries, redundant clone() removed: Cartesian::probe_str'),
    ('R12-7', 'DIFF', 'R_C12_7.diff', None, ALL, 'extract helper method; mutable success flag + break loop -> find_map; if !success -> let-else guard: Cartesian::probe_strategy: the RRT gap closing (try the IK solutions of the target pose best-first '),
    ('R12-8', 'DIFF', 'R_C12_8.diff', None, ALL, 'for loop with early return -> Iterator::find with a predicate closure; if/else -> inverted guard clause with early return; chain().collect() -> extend in place; clone() -> Copy deref: Cartesian::step_'),
    ('R13-5', 'DIFF', 'R_C13_5.diff', None, ALL, 'guard clauses / early return inversion, match -> matches!, while-let loop -> iter::successors chain, temporaries introduced: src/path_plan/rrt_to.rs Tree methods: add_vertex builds the point Vec once '),
    ('R13-6', 'DIFF', 'R_C13_6.diff', None, ALL, 'extract helper function + helper method, match -> Option/if-let, reverse/append -> iterator rev/chain/collect: src/path_plan/rrt_to.rs dual_rrt_connect: new ExtendStatus::new_index() turns Advanced/Re'),
    ('R13-7', 'DIFF', 'R_C13_7.diff', None, ALL, 'closures -> extracted associated functions, iterator map/collect + and_then -> ? and for loop, manual indexing -> TryFrom<Vec>, temporaries removed: src/path_plan/rrt.rs RRTPlanner::plan_path / conver'),
    ('R13-8', 'DIFF', 'R_C13_8.diff', None, ALL, 'inline helper (add_edge folded into add_vertex, parent carried at node creation), extract helper functions (distance, steer), iterator chain -> for loop with push, if/else -> early return: src/path_pl'),
    ('R14-5', 'DIFF', 'R_C14_5.diff', None, ALL, 'extract helper functions (duplicated code folded into private methods): src/collisions.rs: the forward-kinematics + cast-to-f32 preamble repeated in RobotBody::collision_details, collides, near and in'),
    ('R14-6', 'DIFF', 'R_C14_6.diff', None, ALL, 'temporary Vec removed: nested loops -> parallel index range with div/mod decoding; copy-and-assign -> array::from_fn: src/collisions.rs, RobotBody::non_colliding_offsets: the Vec of 12 (joint_index, t'),
    ('R14-7', 'DIFF', 'R_C14_7.diff', None, ALL, 'extract accessor helper + introduce temporaries; for/push loop -> into_iter().filter().collect(): src/kinematics_with_shape.rs: new private KinematicsWithShape::plain_kinematics() returning &*self.kin'),
    ('R14-8', 'DIFF', 'R_C14_8.diff', None, ALL, 'control flow: nested if-let / early returns -> Option combinators (is_some_and, then_some); if/else-if chain -> match; De Morgan inversion of a predicate: src/collisions.rs: in the non_colliding_offse'),
    ('R19-5', 'DIFF', 'R_C19_5.diff', None, ALL, 'Option combinators -> match on the enum variant; repeated call expression -> local closure: read_number now matches on the Yaml variant (Real -> as_f64(), Integer -> cast, anything else -> None) and t'),
    ('R19-6', 'DIFF', 'R_C19_6.diff', None, ALL, 'iterator chain with collect::<Result<Vec,_>> -> explicit for loop with early returns; default Vec -> let-else early return; Vec push/try_into -> fixed array + copy_from_slice: read_offsets: a missing '),
    ('R19-7', 'DIFF', 'R_C19_7.diff', None, ALL, 'Vec + push + length checks + try_into().unwrap() -> slice patterns; closure -> nested helper fn; default Vec -> early return: read_sign_corrections: a missing / non-array node returns Ok([1; 6]) direc'),
    ('R19-8', 'DIFF', 'R_C19_8.diff', None, ALL, 'if-let / else with duplicated error closure -> match producing (text, flag) tuple + single let-else parse; Result combinators -> early return: parse_degrees: the deg(...) detection yields a tuple (tex'),
    ('R20-5', 'DIFF', 'R_C20_5.diff', None, ALL, 'Vec + len/index match -> lazy iterator filter with Option-pair match (temporary collection removed): Vector3::non_zero in src/urdf.rs no longer pushes the non-zero components into a Vec and matches on'),
    ('R20-6', 'DIFF', 'R_C20_6.diff', None, ALL, 'closure helper extracted, slice pattern instead of len check + indexing, map/transpose match -> if-let + match: get_limits reads both bounds through one local closure read_bound(name) (attribute looku'),
    ('R20-7', 'DIFF', 'R_C20_7.diff', None, ALL, 'duplicate code replaced by calls to existing methods (delegation), map_err + ? replaced by match with early return: URDFParameters::to_robot no longer repeats the Parameters {..} literal and the Const'),
    ('R20-8', 'DIFF', 'R_C20_8.diff', None, ALL, 'two duplicated nested fns hoisted into one module-level helper, float-literal tuple match -> if/else chain, else-after-return flattened, if/else assignment -> if-expression plus guard: In populate_opw'),
    ('R02-5', 'DIFF', 'R_C02_5.diff', None, ALL, 'extract closure (de-duplicate four copy-pasted blocks): inverse_intern: the four copy-pasted blocks computing theta4/theta6 for the shoulder/elbow branches 0..3 (deferred-initialised lets plus *_y/*_x'),
    ('R02-6', 'DIFF', 'R_C02_6.diff', None, ALL, 'index loops -> iterator chains (zip/enumerate/all), extract helper fn, guard clause, TAU for 2.0*PI: inverse_intern: the offset/sign mapping loop now walks sols.iter_mut().zip(theta.iter()); the valid'),
    ('R02-7', 'DIFF', 'R_C02_7.diff', None, ALL, 'array::from_fn for the sign/offset mapping, sin_cos reuse instead of repeated sin/cos calls, statements re-ordered, early return, bool::then_some: forward(): q1..q6 are produced by std::array::from_fn'),
    ('R02-8', 'DIFF', 'R_C02_8.diff', None, ALL, 'data carried differently (named scalars -> arrays, from_fn/map, flipped twins generated by a loop), redundant recomputation replaced by existing temporaries: inverse_intern: m[0..4] is built with arra'),
    ('R05-5', 'DIFF', 'R_C05_5.diff', None, ALL, 'extract helper functions (method + free function), temporaries removed: The sign-corrected, offset-free J5 expression that was written out twice (kinematic_singularity and the singular branch of inver'),
    ('R05-6', 'DIFF', 'R_C05_6.diff', None, ALL, 'index loops -> iterators (for-in over slice, iter_mut/zip): In inverse_continuing the `for s_idx in 0..ik.len()` scan for the singular candidate iterates `for candidate in &ik` (ik[s_idx] -> candidate'),
    ('R05-7', 'DIFF', 'R_C05_7.diff', None, ALL, 'equivalent library calls / constants (TAU, bool::then_some, array.iter().any), while -> if, nested fn inlined into a for loop: Rewrote the angle helpers behind the singularity detection: kinematic_sin'),
    ('R05-8', 'DIFF', 'R_C05_8.diff', None, ALL, 'expression-oriented rewrite: deferred-init locals -> if-expressions and a tuple, array destructuring, temporaries introduced/removed, independent statements re-ordered, `as f64` -> f64::from: In inver'),
    ('R06-5', 'DIFF', 'R_C06_5.diff', None, ALL, 'if/else -> match, deferred-init let -> if-expression, index loops -> iter_mut().zip(), temporary introduced: Kinematics::inverse dispatches on parameters.dof with a match (5 => inverse_5dof(pose, 0.0)'),
    ('R06-6', 'DIFF', 'R_C06_6.diff', None, ALL, 'index loops -> iterators (enumerate / all), flag variable -> guard clause with continue, helper function extracted: In inverse_intern_5_dof the validation/normalization loop now iterates sols.iter_mut'),
    ('R06-7', 'DIFF', 'R_C06_7.diff', None, ALL, 'repeated straight-line code -> closure + array map with destructuring (deferred-init temporaries removed): In inverse_intern_5_dof the four copy-pasted theta4 blocks (theta4_iy/theta4_ix ... atan2) ar'),
    ('R06-8', 'DIFF', 'R_C06_8.diff', None, ALL, 'mutable fill loops -> array map building rows directly, helper inlined, match -> let-else: In inverse_intern_5_dof the `sols` table is no longer pre-filled with NaN and overwritten by index loops; it '),
    ('R09-5', 'DIFF', 'R_C09_5.diff', None, ALL, 'extract helper method + temporaries introduced/removed: src/tool.rs: the repeated `tcp * self.tool.inverse()` of the four Tool inverse entry points is extracted into a private Tool::flange_pose, and t'),
    ('R09-6', 'DIFF', 'R_C09_6.diff', None, ALL, 'loops <-> iterator chains, index -> zip, if-let/else -> Option::map: src/tool.rs Base::forward_with_joint_poses: the `for pose in poses.iter_mut()` loop becomes `[Pose; 6]::map(|pose| self.base * pose'),
    ('R09-7', 'DIFF', 'R_C09_7.diff', None, ALL, 'match -> guard clause + array indexing; shared helper extracted; temporary introduced: src/tool.rs: LinearAxis::forward replaces the four-arm match that builds the cart translation by an early `if sel'),
    ('R09-8', 'DIFF', 'R_C09_8.diff', None, ALL, 'equivalent library call (Div / MulAssign operators), struct destructuring, array destructuring instead of index mutation, temporaries removed: src/frame.rs: the four Frame inverse entry points destruc'),
    ('R11-5', 'DIFF', 'R_C11_5.diff', None, ALL, 'loop -> iterator chain, enumerate+index -> zip, if-let -> Option::map, temporaries and redundant clone() removed: src/kinematics_with_shape.rs: remove_collisions becomes into_iter().filter(!collides).'),
    ('R11-6', 'DIFF', 'R_C11_6.diff', None, ALL, 'duplicate constructor body replaced by delegation to the sibling constructor, if/else -> match on bool, temporaries inlined, field init shorthand: src/kinematics_with_shape.rs: KinematicsWithShape::ne'),
    ('R11-7', 'DIFF', 'R_C11_7.diff', None, ALL, 'guard clause / early return, nested if-else -> short-circuit &&, if/else -> bool::then_some, if-let chain with returns -> Option combinators (or_else / unwrap_or_else): src/collisions.rs: CollisionTas'),
    ('R11-8', 'DIFF', 'R_C11_8.diff', None, ALL, 'extract helper function, temporaries removed, range bound replaces an in-loop condition, iter()+as casts -> into_iter()+usize::from: src/collisions.rs: the repeated forward_with_joint_poses then cast'),
    ('R01-5', 'DIFF', 'R_C01_5.diff', None, ALL, 'extract helper function + index loops -> iterator chain (iter_mut/enumerate/all), nested if/else flattened to guard clause: The triplicated while angle > PI / while angle < -PI wrap-around is extrac'),
    ('R01-6', 'DIFF', 'R_C01_6.diff', None, ALL, 'index loop with break -> find_map + let-else guard, labelled break removed, deferred-init lets -> if-expression / tuple, index loops -> iter_mut().zip(): inverse_continuing: previous chosen by an if'),
    ('R01-7', 'DIFF', 'R_C01_7.diff', None, ALL, 'de-duplication: four copy-pasted blocks -> std::array::from_fn closures with array destructuring, deferred-init lets removed: inverse_intern (6-DOF closed form): the four hand-unrolled blocks computin'),
    ('R01-8', 'DIFF', 'R_C01_8.diff', None, ALL, 'equivalent library calls/constants (TAU for 2.0*PI, any() over array for || chain, !any(nan||inf) for all(is_finite)), nested fn inlined into a loop with a local temporary, NaN-initialised mutable arr'),
    ('R04-5', 'DIFF', 'R_C04_5.diff', None, ALL, 'extract helper function/method; index loops -> iter_mut().zip(); deferred-init `let` + if/else -> if-expression in a method: src/kinematics_impl.rs: the duplicated pick constraint centres when prev[0'),
    ('R04-6', 'DIFF', 'R_C04_6.diff', None, ALL, 'two comparator closures merged into one per-solution cost closure; if/else + unwrap -> match with guard; temporaries removed: src/kinematics_impl.rs sort_by_closeness: instead of choosing between two '),
    ('R04-7', 'DIFF', 'R_C04_7.diff', None, ALL, 'extract helper (wrap_to_pi) used at three sites; deferred-init locals -> tuple-valued if-expression; independent statements re-ordered: src/kinematics_impl.rs: the `while angle > PI {-= 2PI} while ang'),
    ('R04-8', 'DIFF', 'R_C04_8.diff', None, ALL, 'nested fn inlined into a `for _ in 0..2` loop; std constant TAU for 2.0 * PI; while -> if where at most one iteration is possible; duplicated if/else-if arms merged with an early continue: src/kinemat'),
    ('R03-5', 'DIFF', 'R_C03_5.diff', None, ALL, 'extract helper method; six repeated statements -> std::array::from_fn with array destructuring: The six copy-pasted sign correction and offset lines at the top of both Kinematics::forward and Kinema'),
    ('R03-6', 'DIFF', 'R_C03_6.diff', None, ALL, 'data carried differently (named temporaries -> fixed-size array) and chained expression -> index loop accumulation: In forward_with_joint_poses the six elementary link transforms are first built on th'),
    ('R03-7', 'DIFF', 'R_C03_7.diff', None, ALL, 'extract helper function (wrist-centre position) plus removal of single-use temporaries: The closed-form position of the wrist centre in Kinematics::forward (psi3, k, q23_psi3, cx1/cy1/cz1, cx0/cy0/cz0'),
    ('R03-8', 'DIFF', 'R_C03_8.diff', None, ALL, 'different but equivalent library calls (sin_cos reuse, method-call syntax, From/Into conversions, Vector3::z_axis()) and re-ordering of independent statements: In Kinematics::forward the block of q.si'),
    ('R07-5', 'DIFF', 'R_C07_5.diff', None, ALL, 'extract helper + merge duplicated branches with a guard clause (continue) + index loop -> zip/enumerate iterator: Constraints::compute_centers: the `a == b` case becomes a guard with `continue`; the s'),
    ('R07-6', 'DIFF', 'R_C07_6.diff', None, ALL, 'early return -> boolean expression, mutable temporary removed (helper extracted), enumerate+index -> zip, into_iter().cloned() -> iter().copied(), std constant TAU for 2.0 * PI: Constraints::inside_bo'),
    ('R07-7', 'DIFF', 'R_C07_7.diff', None, ALL, 'if / else-if chain -> match on partial_cmp, data carried differently (per-joint (centre, tolerance) tuples built with array::from_fn then split, instead of two mutable arrays), setter delegates to con'),
    ('R07-8', 'DIFF', 'R_C07_8.diff', None, ALL, 'Option/Result combinators <-> match, mutable struct patched afterwards -> temporaries + single struct literal, ok_or_else()? -> let-else, index loop -> enumerate, if/else -> if-expression plus inverte'),
    ('R15-5', 'DIFF', 'R_C15_5.diff', None, ALL, 'iterator chain + collect + second loop -> single index for loop (loop fusion), temporaries removed: compute_jacobian: the `(0..6).into_iter().map(..).collect::<Vec<_>>()` of (delta_position, delta_ori'),
    ('R15-6', 'DIFF', 'R_C15_6.diff', None, ALL, 'deferred-initialised variable with if-let/else + nested match + early return -> single match expression with map_err and `?`; clone() of a Copy matrix dropped: Jacobian::velocities_from_vector: `let j'),
    ('R15-7', 'DIFF', 'R_C15_7.diff', None, ALL, 'extract helper function (duplicated code in two methods moved into one private fn): The identical take translation.vector and rotation.scaled_axis() of the Isometry3 and pack them into a Vector6 blo'),
    ('R15-8', 'DIFF', 'R_C15_8.diff', None, ALL, 'data carried differently (tuple of two Vector3 -> one Vector6 column, matrix built with from_columns instead of zeros + view copies), loop-invariant hoisted out of the closure: compute_jacobian: the c'),
    ('R16-5', 'DIFF', 'R_C16_5.diff', None, ALL, 'extract helper methods (per-joint-vector couple / decoupled) and call them from all six entry points: src/parallelogram.rs: the repeated `x[coupled] += scaling * x[driven]` closure body of the four in'),
    ('R16-6', 'DIFF', 'R_C16_6.diff', None, ALL, 'iterator for_each closure -> explicit for loop; compound assignment expanded with a named temporary; independent statements re-ordered: src/parallelogram.rs: in the four inverse entry points `solution'),
    ('R16-7', 'DIFF', 'R_C16_7.diff', None, ALL, 'in-place mutation -> consuming iterator chain (into_iter().map().collect()); fields destructured into locals; commuted product: src/parallelogram.rs: every method first binds `let &Parallelogram { sca'),
    ('R16-8', 'DIFF', 'R_C16_8.diff', None, ALL, 'higher-order restructuring: the inner-robot call is passed as a closure into two generic private helpers; for_each -> for loop over &mut Vec: src/parallelogram.rs: new private `Parallelogram::solve(&s'),
    ('R17-5', 'DIFF', 'R_C17_5.diff', None, ALL, 'extract helper function + let-else guard clauses, duplicate computation removed: src/frame.rs: the two copies of the basis construction in Frame::frame (edge vectors, cross-product colinearity check, '),
    ('R17-6', 'DIFF', 'R_C17_6.diff', None, ALL, 'explicit temporaries + && chain -> table of index pairs with iterator all(); data carried as arrays: src/frame.rs: distances_match (the congruence guard behind is_valid_isometry / NotIsometry) no long'),
    ('R17-7', 'DIFF', 'R_C17_7.diff', None, ALL, 'equivalent library calls, temporaries removed / expressions inlined: src/frame.rs: Frame::translation builds the isometry with Translation3::from(q - p).into() instead of Isometry3::from_parts(.., Uni'),
    ('R17-8', 'DIFF', 'R_C17_8.diff', None, ALL, 'index loops -> iter_mut/zip iterators; computation moved into closures (duplicated a/b code -> one distance closure), deferred-init let + if/else -> if expression: src/kinematics_impl.rs (helpers that'),
    ('R18-5', 'DIFF', 'R_C18_5.diff', None, ALL, 'extract helper functions; explicit element list -> std::array::from_fn: The nested fn random_angle inside Constraints::random_angles is hoisted into two private associated functions: arc_span(from, to'),
    ('R18-6', 'DIFF', 'R_C18_6.diff', None, ALL, 'if/else expression -> guard clause with early return; mutable fix-up -> match with guard; std constant TAU for 2.0 * PI: In the nested random_angle the `from < to` case becomes an early return, the wr'),
    ('R18-7', 'DIFF', 'R_C18_7.diff', None, ALL, 'nested fn -> closure capturing a hoisted rng; common tail hoisted out of the branches; inverted condition with swapped branches; array literal -> zip/iter_mut loop; return + to_vec -> tail expression '),
    ('R18-8', 'DIFF', 'R_C18_8.diff', None, ALL, 'data carried differently (from/to pairs as tuples, array::map); Option combinator instead of mutable fix-up; enumerate+index -> zip; mutable temporary -> shadowed bindings; into_iter/cloned -> iter/co'),
]
KEEP += KEEP_AGENTS

# rewrites by independent authors that are NOT silent yet (the checks report them or stop): kept in the catalogue, reported as
# open by tools/run_selftest.py, one reason each (DESIGN 8.5, eighth campaign)
OPEN_REWRITES = {
    'R04-3': 'near-normaliser as a value-returning fn applied through array::from_fn: role and call sites are read as fn(&mut f64, f64)',
}
